#!/bin/bash
# confirm_seed.sh <seed dir with patch.diff + demo.diff> <scratch worktree>
# Confirms in a scratch worktree (outside /repo and /verif) that the seeded change compiles, passes the
# existing test suite, and that its demonstration fails with the change and passes without it.
# Writes <seed dir>/confirm.json.
set -u
D="$1"; W="$2"
export CARGO_TARGET_DIR="$W/target" CARGO_NET_OFFLINE=true
cd "$W" || exit 2
git checkout -q -- . && git clean -qfd -e target
res() { grep -E "^test result" "$1" | awk '{p+=$4; f+=$6} END {print p" passed "f" failed"}'; }
git apply "$D/patch.diff" || { echo '{"error":"patch does not apply"}' > "$D/confirm.json"; exit 1; }
cargo test --workspace --offline > "$W/t1.log" 2>&1; S1=$?
R1=$(res "$W/t1.log")
git apply "$D/demo.diff" || { echo '{"error":"demo does not apply"}' > "$D/confirm.json"; git checkout -q -- .; git clean -qfd -e target; exit 1; }
cargo test --workspace --offline > "$W/t2.log" 2>&1; S2=$?
R2=$(res "$W/t2.log")
git apply -R "$D/patch.diff"
cargo test --workspace --offline > "$W/t3.log" 2>&1; S3=$?
R3=$(res "$W/t3.log")
git checkout -q -- . && git clean -qfd -e target
OK=false; [ $S1 -eq 0 ] && [ $S2 -ne 0 ] && [ $S3 -eq 0 ] && OK=true
cat > "$D/confirm.json" <<JSON
{"confirmed": $OK,
 "existing_suite_with_patch": {"exit": $S1, "summary": "$R1"},
 "suite_plus_demo_with_patch": {"exit": $S2, "summary": "$R2"},
 "suite_plus_demo_without_patch": {"exit": $S3, "summary": "$R3"},
 "how": "scratch worktree $W: git apply patch.diff; cargo test --workspace --offline; git apply demo.diff; cargo test (must fail); git apply -R patch.diff; cargo test (must pass)"}
JSON
echo "$(basename $D): confirmed=$OK  [$R1] [$R2] [$R3]"
