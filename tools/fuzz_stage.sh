#!/bin/bash
# fuzz_stage.sh <ID> <target: hist|small> <runs per job>
# Thorough-tier libFuzzer stage for one property: VERIF_FUZZ_PROP restricts the in-target oracle to
# comparisons tagged with <ID>.  16 jobs; corpus seeded with random records; merges counts into the
# evidence file.  Exit 0 = no violation, 1 = violation (VIOLATION line printed by the target and
# repeated here), 2 = fuzz stage unavailable / inconclusive.
set -u
ID="$1"; TARGET="$2"; RUNS="${3:-20000}"
SEED="${VERIF_SEED:-20261004}"
cd /verif/fuzz || exit 2
export CARGO_NET_OFFLINE=true
[ -f Cargo.lock ] || cp /verif/Cargo.lock Cargo.lock
if ! cargo fuzz build -s none "$TARGET" > /verif/target/fuzz-build.log 2>&1; then
  tail -5 /verif/target/fuzz-build.log
  echo "FUZZ BUILD FAILED (stage skipped, inconclusive)"; exit 2
fi
CORPUS=/verif/target/fuzz-corpus/$ID-$TARGET
LOGS=/verif/target/fuzz-logs/$ID-$TARGET
rm -rf "$CORPUS" "$LOGS"; mkdir -p "$CORPUS" "$LOGS"
python3 - "$CORPUS" "$SEED" <<'PY'
import hashlib, sys
d, seed = sys.argv[1], sys.argv[2]
for i in range(64):
    n = 3 + (i % 60)
    b = b''.join(hashlib.sha256(f'{seed}/{i}/{j}'.encode()).digest()[:16] for j in range(n))
    open(f'{d}/seed{i:02d}', 'wb').write(b)
PY
BIN=/verif/fuzz/target/x86_64-unknown-linux-gnu/release/$TARGET
MAXLEN=1296; [ "$TARGET" = "small" ] && MAXLEN=128
( cd "$LOGS" && VERIF_FUZZ_PROP="$ID" "$BIN" "$CORPUS" -jobs=16 -workers=16 -runs="$RUNS" -seed="$SEED" -len_control=0 -max_len=$MAXLEN -timeout=60 -artifact_prefix="$LOGS/" > "$LOGS/driver.log" 2>&1 )
RC=$?
EXECS=$(grep -h "^Done " "$LOGS"/fuzz-*.log 2>/dev/null | awk '{s+=$2} END {print s+0}')
COV=$(grep -h "DONE" "$LOGS"/fuzz-*.log 2>/dev/null | sed -E 's/.*cov: ([0-9]+).*/\1/' | sort -n | tail -1)
python3 - "$ID" "$TARGET" "$EXECS" "${COV:-0}" "$(ls $CORPUS | wc -l)" <<'PY'
import json, sys
pid, target, execs, cov, corp = sys.argv[1:6]
p = f'/verif/evidence/{pid}.json'
try:
    e = json.load(open(p))
    e['coverage'].setdefault('libfuzzer_stages', []).append({'target': target, 'executions': int(execs), 'edge_coverage': int(cov), 'corpus_files': int(corp), 'jobs': 16, 'oracle': f'in-target, comparisons tagged {pid}'})
    json.dump(e, open(p, 'w'), indent=1)
except Exception as ex:
    print('cannot merge fuzz counts into evidence:', ex)
PY
echo "$ID fuzz[$TARGET]: $EXECS executions, edge coverage ${COV:-?}, exit $RC"
if grep -h "^VIOLATION property=$ID" "$LOGS"/fuzz-*.log > "$LOGS/violations.txt" 2>/dev/null && [ -s "$LOGS/violations.txt" ]; then
  grep -h -B1 "^VIOLATION property=$ID" "$LOGS"/fuzz-*.log | head -4
  exit 1
fi
if [ $RC -ne 0 ]; then
  echo "libFuzzer stage ended abnormally (timeout/oom/other): inconclusive"; exit 2
fi
exit 0
