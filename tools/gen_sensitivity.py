#!/usr/bin/env python3
"""Regenerates the sensitivity table of DESIGN.md section 10 from the result files."""
import json, os, re
rows = []
p = '/verif/seeded/results.json'
if os.path.exists(p):
    r = json.load(open(p))
    for name in sorted(r):
        prop = name.split('-')[0]
        caught = sorted(k for k, v in r[name].items() if v.get('exit') == 1)
        meta = {}
        mp = f'/verif/seeded/{name}/meta.json'
        if os.path.exists(mp):
            meta = json.load(open(mp))
        rows.append((f'seeded/{name}', prop, ', '.join(caught) or '—', meta.get('needs_to_manifest', '')))
p = '/verif/seeded/own/results.json'
if os.path.exists(p):
    r = json.load(open(p))
    for name in sorted(r):
        caught = sorted(k for k, v in r[name]['checks'].items() if v.get('exit') == 1)
        ran = sorted(r[name]['checks'])
        rows.append((f'seeded/own/{name}.diff', '/'.join(ran), ', '.join(caught) or '—', 'unit tests ' + ('pass' if r[name]['tests_pass'] else 'fail') + ' with it'))
t = ['| change | targets | caught by (quick tier) | needs / note |', '|---|---|---|---|']
t += [f'| {a} | {b} | {c} | {d} |' for a, b, c, d in rows]
s = open('/verif/DESIGN.md').read()
s = re.sub(r'<!-- SENSITIVITY-TABLE-BEGIN -->.*<!-- SENSITIVITY-TABLE-END -->', '<!-- SENSITIVITY-TABLE-BEGIN -->\n' + '\n'.join(t) + '\n<!-- SENSITIVITY-TABLE-END -->', s, flags=re.S)
open('/verif/DESIGN.md', 'w').write(s)
print(len(rows), 'rows')
