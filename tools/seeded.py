#!/usr/bin/env python3
"""Runs the checks against the seeded changes in /verif/seeded/<name>/patch.diff.

  seeded.py [--all] [name ...]     own property's quick check (or all 20 with --all)

Applies the patch to /repo (git apply), runs ./check, restores /repo (git checkout -- .), and
records the outcome in /verif/seeded/results.json.
"""
import json, os, subprocess, sys, time, glob

def sh(cmd):
    return subprocess.run(cmd, shell=True, capture_output=True, text=True)

def main():
    args = sys.argv[1:]
    allp = '--all' in args
    names = [a for a in args if not a.startswith('--')]
    dirs = sorted(glob.glob('/verif/seeded/C*-*'))
    seed = os.environ.get('VERIF_SEED')
    resf = '/verif/seeded/results.json' if not seed else f'/verif/seeded/results_seed{seed}.json'
    results = json.load(open(resf)) if os.path.exists(resf) else {}
    assert sh('git -C /repo status --porcelain').stdout.strip() == '', '/repo is not clean'
    for d in dirs:
        name = os.path.basename(d)
        if names and name not in names:
            continue
        prop = name.split('-')[0]
        props = [f'C{i:02d}' for i in range(1, 21)] if allp else [prop]
        a = sh(f'git -C /repo apply {d}/patch.diff')
        if a.returncode != 0:
            print(name, 'PATCH DOES NOT APPLY', a.stderr[:200])
            continue
        try:
            r = results.get(name, {})
            for p in props:
                t0 = time.time()
                c = sh(f'cd /verif && VERIF_EVIDENCE_DIR=/tmp/ev ./check {p} quick')
                lines = c.stdout.split('\n')
                vi = [i for i, l in enumerate(lines) if l.startswith('VIOLATION') or 'BUILD FAILED' in l or 'HARNESS-ERROR' in l]
                first = ''
                if vi:
                    first = (lines[vi[0] - 1].strip()[:300] + ' | ' if vi[0] > 0 else '') + lines[vi[0]][:120]
                r[p] = {'exit': c.returncode, 'wall_s': round(time.time() - t0, 1), 'first': first}
            results[name] = r
            caught = [p for p in props if r[p]['exit'] == 1]
            print(f'{name:10s} own={r[prop]["exit"]} caught_by={caught}', flush=True)
            if r[prop]['exit'] == 1:
                print('     ', r[prop]['first'][:260])
        finally:
            sh('git -C /repo checkout -- .')
            sh('rm -f /verif/replays/C*.json')
        json.dump(results, open(resf, 'w'), indent=1, sort_keys=True)

if __name__ == '__main__':
    main()
