#!/usr/bin/env python3
"""Writes /verif/MANIFEST.json from the table below (kept in one place so it stays valid)."""
import json
T = {
 "C01": ("model-based stateful PBT (proptest histories vs reference model + simulated ledgers)", "3 C01"),
 "C02": ("model-based stateful PBT: predicted entitlements vs simulated bank balance", "3 C02"),
 "C03": ("model-based stateful PBT: token-factory supply, per-recipient deltas, native voucher ledger", "3 C03"),
 "C04": ("PBT of pure functions vs 256-bit reference (boundary-constructed inputs) + stateful histories", "3 C04"),
 "C05": ("model-based stateful PBT: payouts vs 256-bit pro-rata reference, request map", "3 C05"),
 "C06": ("model-based stateful PBT with deadline-aligned clock", "3 C06"),
 "C07": ("stateful PBT with fault injection: IBC outcomes, stray callbacks, submission failures vs IBC-module ground truth", "3 C07"),
 "C08": ("PBT authorization matrix: every message x principal on copies of generated reachable states", "3 C08"),
 "C09": ("differential PBT vs independent ibc-hooks derivation (own SHA-256/bech32) + stateful impostor histories", "3 C09"),
 "C10": ("metamorphic stateful PBT: same transaction on resumed vs halted copy; raw storage diffs", "3 C10"),
 "C11": ("model-based stateful PBT: fee split vs 256-bit reference, treasury/fee ledgers", "3 C11"),
 "C12": ("model-based PBT of handover sequences on both contracts with 7-day boundary clock", "3 C12"),
 "C13": ("PBT with derived candidate routes; emitted messages decoded by independent protobuf reader", "3 C13"),
 "C14": ("PBT by field-level corruption of valid configurations; independent well-formedness predicates", "3 C14"),
 "C15": ("stateful PBT: decoded oracle payload vs 256-bit rates of the post-transaction state", "3 C15"),
 "C16": ("stateful PBT / robustness fuzzing with catch_unwind around every entry point", "3 C16"),
 "C17": ("PBT of page walks vs full-scan reference on synthetic stores + stateful index comparison", "3 C17"),
}
NA = {
 "C18": "check not built yet in this session (planned: PBT over generated pre-upgrade stores); see DESIGN.md section 3 C18",
 "C19": "check not built yet in this session (planned: differential PBT of the two cargo feature builds); see DESIGN.md section 3 C19",
 "C20": "check not built yet in this session (planned: schema-driven differential PBT of all message types); see DESIGN.md section 3 C20",
}
import os
extra = {}
p = os.path.join(os.path.dirname(__file__), "manifest_extra.json")
if os.path.exists(p):
    extra = json.load(open(p))
    for k, v in extra.get("checks", {}).items():
        T[k] = tuple(v)
        NA.pop(k, None)
checks = []
for pid, (tech, ref) in sorted(T.items()):
    checks.append({
        "property_id": pid,
        "quick_cmd": f"./check {pid} quick",
        "thorough_cmd": f"./check {pid} thorough",
        "evidence_file": f"/verif/evidence/{pid}.json",
        "replay_cmd_template": f"./check replay {pid} {{path}}",
        "engine": "protocheck" if pid == "C20" else "harness",
        "level_claimed": {
            "category": "exploration",
            "text": "Generated-input search against an explicit oracle (reference model / independent implementation / metamorphic relation); finds violations within the generated bounds, never proves absence. Evidence reports cases, distinct non-trivial cases by a stated rule, class distribution and samples.",
            "design_ref": f"DESIGN.md section {ref}",
        },
        "level_note": "Trusted base: the chain simulator (my reading of wasmd sub-message/reply semantics, ICS-20, ibc-hooks), the reference model, own 256-bit arithmetic / SHA-256 / bech32 / protobuf reader (self-tested at start-up), proptest 1.11 with ChaCha RNG seeded from VERIF_SEED.",
        "technique": tech,
    })
m = {
 "version": 1,
 "setup_cmd": "./setup.sh",
 "hooks": {
  "guard": "milkyway_verif",
  "enable": "none needed: every module of both contracts is pub, the harness links the crates of /repo's working tree as path dependencies",
  "baseline_off_cmd": "cd /repo && cargo test --workspace --no-fail-fast --offline",
  "source_commits": [],
  "add_only": True,
 },
 "engines": [
  {"name": "harness", "path": "/verif/harness", "serves_properties": sorted(k for k in T.keys() if k != "C20"),
   "kind_free_text": "Rust crate: chain simulator + reference model + proptest drivers (16 worker threads) + replay; path-depends on /repo's contracts so every run rebuilds from the current tree; a second build with --features miniwasm lives in /verif/target-mw (C19)"},
  {"name": "protocheck", "path": "/verif/protocheck", "serves_properties": ["C20"],
   "kind_free_text": "Rust crate + tools/extract_schema.py: dispatch table over every prost message type of the current tree, schema-driven independent encoder, osmosis-std differential, pinned baseline in /verif/baseline"},
 ],
 "checks": checks,
 "notes": "exit 0 = held on everything explored; 1 = VIOLATION line; 2 = inconclusive (build failure, harness error, generator starvation). Findings and fixes: known_findings.json and DESIGN.md section 7.",
 "not_applicable": [{"property_id": k, "reason": v} for k, v in sorted(NA.items())],
}
json.dump(m, open("/verif/MANIFEST.json", "w"), indent=1)
print("wrote MANIFEST.json with", len(checks), "checks;", len(NA), "not applicable")
