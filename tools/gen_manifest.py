#!/usr/bin/env python3
"""Writes /verif/MANIFEST.json from the table below (kept in one place so it stays valid)."""
import json
T = {
 "C01": ("model-based stateful PBT (proptest histories vs reference model + simulated ledgers)", "3 C01"),
 "C02": ("model-based stateful PBT: predicted entitlements vs simulated bank balance", "3 C02"),
 "C03": ("model-based stateful PBT: token-factory supply, per-recipient deltas, native voucher ledger", "3 C03"),
 "C04": ("PBT of pure functions vs 256-bit reference (boundary-constructed inputs) + stateful histories", "3 C04"),
 "C05": ("model-based stateful PBT: payouts vs 256-bit pro-rata reference, request map", "3 C05"),
 "C06": ("model-based stateful PBT with deadline-aligned clock", "3 C06"),
 "C07": ("stateful PBT with fault injection: IBC outcomes, stray callbacks, submission failures vs IBC-module ground truth", "3 C07"),
 "C08": ("PBT authorization matrix: every message x principal on copies of generated reachable states", "3 C08"),
 "C09": ("differential PBT vs independent ibc-hooks derivation (own SHA-256/bech32) + stateful impostor histories", "3 C09"),
 "C10": ("metamorphic stateful PBT: same transaction on resumed vs halted copy; raw storage diffs", "3 C10"),
 "C11": ("model-based stateful PBT: fee split vs 256-bit reference, treasury/fee ledgers", "3 C11"),
 "C12": ("model-based PBT of handover sequences on both contracts with 7-day boundary clock", "3 C12"),
 "C13": ("PBT with derived candidate routes; emitted messages decoded by independent protobuf reader", "3 C13"),
 "C14": ("PBT by field-level corruption of valid configurations; independent well-formedness predicates", "3 C14"),
 "C15": ("stateful PBT: decoded oracle payload vs 256-bit rates of the post-transaction state", "3 C15"),
 "C16": ("stateful PBT / robustness fuzzing with catch_unwind around every entry point", "3 C16"),
 "C17": ("PBT of page walks vs full-scan reference on synthetic stores + stateful index comparison", "3 C17"),
}
NA = {
 "C18": "check not built yet in this session (planned: PBT over generated pre-upgrade stores); see DESIGN.md section 3 C18",
 "C19": "check not built yet in this session (planned: differential PBT of the two cargo feature builds); see DESIGN.md section 3 C19",
 "C20": "check not built yet in this session (planned: schema-driven differential PBT of all message types); see DESIGN.md section 3 C20",
}
WHAT = {
 "C01": "Histories of 30-80 ops (stakes, unstakes, submissions, withdrawals, operator deliveries, all IBC outcomes, recoveries, config changes, sweep) executed against a chain simulator; after every step State.total_native_token is compared with F-E-S+R computed from the simulator's own ledgers and with the staker-side ledger.",
 "C02": "Same engine; the contract's bank balance is compared after every step with unwithdrawn batches + fees (model's and the contract's own figure) + refundable transfers, and every entitled payout must succeed.",
 "C03": "Same engine; token-factory supply vs State, contract-held LST vs pending batch + refundable LST, per-stake recipient deltas incl. native voucher ledger.",
 "C04": "1M (quick) pure cases over the 128-bit space against 256-bit reference arithmetic, plus stake-heavy histories checking thresholds and the minted amount.",
 "C05": "Withdrawal-heavy histories vs a request map and 256-bit pro-rata reference, plus withdrawal of every received batch in three orders on copies.",
 "C06": "Histories with the clock aligned to deadline-1/deadline/deadline+1; batch list compared with the model after every step.",
 "C07": "IBC-heavy histories with all outcome assignments, stray callbacks, injected submission failures and every recovery form vs the IBC module's ground truth.",
 "C08": "Every message variant x 11-13 principals on copies of generated reachable states against a literal authorization table.",
 "C09": "300k (quick) derivations vs an independent implementation of the ibc-hooks formula with adversarial second pairs, plus impostor histories incl. config changes.",
 "C10": "The same transaction on a resumed and on a halted copy of generated states; raw storage diffs of halting and resuming.",
 "C11": "Reward-heavy histories vs 256-bit fee reference, treasury toggles, FeeWithdraw at the boundary, huge fee rates.",
 "C12": "Handover step sequences on both contracts with the clock at 7d-1s/7d/7d+1s, plus ownership-heavy histories interleaved with all other staking operations.",
 "C13": "Treasury op sequences with candidate routes derived from allow-listed ones; emitted messages decoded by an independent protobuf reader.",
 "C14": "Valid configurations with 0-3 field-level corruptions through instantiate, UpdateConfig (all section subsets) and validator changes; independent well-formedness predicates on the Config query.",
 "C15": "Decoded oracle payload vs 256-bit rates of the post-transaction state in histories, plus the same history with and without an oracle compared step by step.",
 "C16": "catch_unwind around every entry point of both contracts: hostile histories, hostile single calls, byte-mutated JSON, corrupted configuration messages, treasury sequences.",
 "C17": "Cursor walks over synthetic stores (up to 400 batches, id extremes, all statuses) vs a full scan; per-user request index vs the model after every history step.",
 "C18": "Generated pre-upgrade stores (raw legacy JSON) x stored name/version x migrate message: gate table, record-by-record comparison, raw storage diff, recovery after upgrade; treasury gate.",
 "C19": "Histories and sub-denom spellings on both cargo-feature builds with token-factory bytes decoded independently; canonical traces of the two binaries compared.",
 "C20": "All 1312 message types instantiated through a dispatch table generated from the current tree; schema-driven independent encoder vs real decode/encode, osmosis-std differential, pinned schema, type URLs.",
}
import os
extra = {}
p = os.path.join(os.path.dirname(__file__), "manifest_extra.json")
if os.path.exists(p):
    extra = json.load(open(p))
    for k, v in extra.get("checks", {}).items():
        T[k] = tuple(v)
        NA.pop(k, None)
checks = []
for pid, (tech, ref) in sorted(T.items()):
    checks.append({
        "property_id": pid,
        "quick_cmd": f"./check {pid} quick",
        "thorough_cmd": f"./check {pid} thorough",
        "evidence_file": f"/verif/evidence/{pid}.json",
        "replay_cmd_template": f"./check replay {pid} {{path}}",
        "engine": "protocheck" if pid == "C20" else "harness",
        "level_claimed": {
            "category": "exploration",
            "text": WHAT.get(pid, "") + " Generated-input search against an explicit oracle; finds violations within the generated bounds, never proves absence. Evidence reports cases, distinct non-trivial cases by a stated rule, class distribution and samples.",
            "design_ref": f"DESIGN.md section {ref}",
        },
        "level_note": "Trusted base: the chain simulator (my reading of wasmd sub-message/reply semantics, ICS-20, ibc-hooks), the reference model, own 256-bit arithmetic / SHA-256 / bech32 / protobuf reader (self-tested at start-up), proptest 1.11 with ChaCha RNG seeded from VERIF_SEED.",
        "technique": tech,
    })
m = {
 "version": 1,
 "setup_cmd": "./setup.sh",
 "hooks": {
  "guard": "milkyway_verif",
  "enable": "none needed: every module of both contracts is pub, the harness links the crates of /repo's working tree as path dependencies",
  "baseline_off_cmd": "cd /repo && cargo test --workspace --no-fail-fast --offline",
  "source_commits": [],
  "add_only": True,
 },
 "engines": [
  {"name": "harness", "path": "/verif/harness", "serves_properties": sorted(k for k in T.keys() if k != "C20"),
   "kind_free_text": "Rust crate: chain simulator + reference model + proptest drivers (16 worker threads) + replay; path-depends on /repo's contracts so every run rebuilds from the current tree; a second build with --features miniwasm lives in /verif/target-mw (C19)"},
  {"name": "protocheck", "path": "/verif/protocheck", "serves_properties": ["C20"],
   "kind_free_text": "Rust crate + tools/extract_schema.py: dispatch table over every prost message type of the current tree, schema-driven independent encoder, osmosis-std differential, pinned baseline in /verif/baseline"},
 ],
 "checks": checks,
 "notes": "exit 0 = held on everything explored; 1 = VIOLATION line; 2 = inconclusive (build failure, harness error, generator starvation). Findings and fixes: known_findings.json and DESIGN.md section 7.",
 "not_applicable": [{"property_id": k, "reason": v} for k, v in sorted(NA.items())],
}
json.dump(m, open("/verif/MANIFEST.json", "w"), indent=1)
print("wrote MANIFEST.json with", len(checks), "checks;", len(NA), "not applicable")
