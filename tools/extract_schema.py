#!/usr/bin/env python3
"""Extracts the protobuf schema that the prost-generated bindings of a crate implement.

  extract_schema.py initia   <crate src dir> <out schema.json> [<out dispatch.rs> <crate path in rust>]
  extract_schema.py osmosis  <osmosis-std src/types dir> <out schema.json>

For `initia` the module tree is read from lib.rs (pub mod nesting + include!("proto/<file>.rs")),
for `osmosis` from the directory layout (src/types/a/b/v1.rs or mod.rs).  Every struct deriving
::prost::Message, every ::prost::Oneof enum and every ::prost::Enumeration enum is recorded with
its fields exactly as the #[prost(...)] attribute states them (kind, label, tag, map / oneof /
enumeration targets) plus the resolved Rust path of message-typed fields.
"""
import json, os, re, sys

ATTR_RE = re.compile(r'#\[prost\((.*?)\)\]', re.S)


def split_top(s):
    out, depth, cur, inq = [], 0, '', False
    for ch in s:
        if ch == '"':
            inq = not inq
        if not inq:
            if ch in '(<[':
                depth += 1
            elif ch in ')>]':
                depth -= 1
            elif ch == ',' and depth == 0:
                out.append(cur.strip())
                cur = ''
                continue
        cur += ch
    if cur.strip():
        out.append(cur.strip())
    return out


def parse_attr(a):
    """'message, optional, tag = "1"' -> dict"""
    parts = split_top(' '.join(a.split()))
    d = {'kind': None, 'label': None, 'tags': [], 'raw': ', '.join(parts)}
    for p in parts:
        if '=' in p:
            k, v = [x.strip() for x in p.split('=', 1)]
            v = v.strip('"')
            if k == 'tag':
                d['tags'] = [int(v)]
            elif k == 'tags':
                d['tags'] = [int(x) for x in v.split(',')]
            elif k in ('enumeration', 'oneof', 'map', 'btree_map', 'hash_map'):
                d['kind'] = 'map' if 'map' in k else k
                d['target'] = v
            elif k == 'bytes':
                d['kind'] = 'bytes'
                d['bytes_repr'] = v
            elif k == 'packed':
                d['packed'] = v
            elif k == 'default':
                d['default'] = v
            else:
                d.setdefault('other', []).append(p)
        else:
            if p in ('optional', 'repeated', 'required'):
                d['label'] = p
            elif p == 'boxed':
                d['boxed'] = True
            elif d['kind'] is None:
                d['kind'] = p
            else:
                d.setdefault('other', []).append(p)
    return d


def balanced_type(txt):
    """type text up to the ',' that ends the field (angle brackets balanced)"""
    depth, out = 0, ''
    for ch in txt:
        if ch == '<':
            depth += 1
        elif ch == '>':
            depth -= 1
        elif ch == ',' and depth == 0:
            break
        out += ch
    out = re.sub(r'\s+', '', out)
    return out.replace(',>', '>')


def strip_type(t):
    t = re.sub(r'\s+', '', t).rstrip(',')
    for w in ('::core::option::Option<', '::prost::alloc::vec::Vec<', '::prost::alloc::boxed::Box<', 'Option<', 'Vec<', 'Box<'):
        while t.startswith(w) and t.endswith('>'):
            t = t[len(w):-1].strip()
    return t


def resolve(path, cur_mod):
    """Resolve a type path written inside module cur_mod (list) to an absolute list."""
    path = path.strip()
    if path.startswith('::prost_types::') or path.startswith('prost_types::'):
        return ['prost_types', path.split('::')[-1]]
    if path.startswith('::'):
        return path[2:].split('::')
    segs = path.split('::')
    if segs[0] in ('tendermint_proto', 'tendermint'):
        return ['tendermint_proto'] + segs[1:]
    if segs[0] == 'crate':
        return segs[1:]
    m = list(cur_mod)
    i = 0
    while i < len(segs) and segs[i] == 'super':
        m = m[:-1]
        i += 1
    if segs[0] == 'self':
        i = 1
    return m + segs[i:]


def parse_items(text, base_mod):
    """Yield items found in a prost-generated file. base_mod: list of module segments."""
    items = []
    lines = text.split('\n')
    mod_stack = []  # (name, depth_at_open)
    depth = 0
    i = 0
    pending_derive = ''
    skip_until_depth = None
    while i < len(lines):
        line = lines[i]
        s = line.strip()
        if skip_until_depth is not None:
            depth += line.count('{') - line.count('}')
            if depth <= skip_until_depth:
                skip_until_depth = None
            i += 1
            continue
        if s.startswith('///') or s.startswith('//'):
            i += 1
            continue
        if s.startswith('#[derive(') or s.startswith('#[derive ('):
            d = s
            while ')]' not in d:
                i += 1
                d += lines[i].strip()
            pending_derive = d
            i += 1
            continue
        m = re.match(r'pub mod (r#)?(\w+) \{', s)
        if m:
            name = m.group(2)
            # generated gRPC client/server modules carry no messages
            if name.endswith('_client') or name.endswith('_server'):
                skip_until_depth = depth
                depth += line.count('{') - line.count('}')
                i += 1
                continue
            mod_stack.append((name, depth))
            depth += 1
            i += 1
            continue
        m = re.match(r'pub (struct|enum) (\w+)\s*(\{\s*\}|\{)?', s)
        if m and pending_derive:
            kind, name = m.group(1), m.group(2)
            cur_mod = base_mod + [n for n, _ in mod_stack]
            derive = pending_derive
            pending_derive = ''
            body = []
            if m.group(3) and '}' in m.group(3):
                i += 1
            else:
                d0 = depth
                depth += 1
                i += 1
                while i < len(lines):
                    l2 = lines[i]
                    depth += l2.count('{') - l2.count('}')
                    if depth <= d0:
                        i += 1
                        break
                    body.append(l2)
                    i += 1
            btxt = '\n'.join(l for l in body if not l.strip().startswith('//'))
            if '::prost::Message' in derive and kind == 'struct':
                fields = []
                pos = 0
                for am in ATTR_RE.finditer(btxt):
                    attr = parse_attr(am.group(1))
                    rest = btxt[am.end():]
                    fm = re.search(r'pub\s+(r#)?(\w+)\s*:\s*', rest)
                    fname = fm.group(2)
                    ftype = balanced_type(rest[fm.end():])
                    f = {'name': fname, 'rust_type': ftype, 'attr': attr['raw'], 'kind': attr['kind'], 'label': attr['label'], 'tags': attr['tags']}
                    for k in ('target', 'bytes_repr', 'packed', 'default', 'boxed', 'other'):
                        if k in attr:
                            f[k] = attr[k]
                    if attr['kind'] == 'message':
                        f['message'] = '::'.join(resolve(strip_type(ftype), cur_mod))
                    if attr['kind'] == 'oneof' or attr['kind'] == 'enumeration':
                        f['target_path'] = '::'.join(resolve(attr['target'], cur_mod))
                    if attr['kind'] == 'map':
                        k, v = [x.strip() for x in attr['target'].split(',', 1)]
                        f['map_key'] = k
                        f['map_value'] = v
                        if v == 'message':
                            inner = ftype[ftype.index('<') + 1:ftype.rindex('>')]
                            vt = split_top(inner)[1]
                            f['message'] = '::'.join(resolve(vt, cur_mod))
                        if v.startswith('enumeration'):
                            f['target_path'] = '::'.join(resolve(v[v.index('(') + 1:v.rindex(')')], cur_mod))
                    fields.append(f)
                items.append({'item': 'message', 'path': '::'.join(cur_mod + [name]), 'name': name, 'fields': fields})
            elif '::prost::Oneof' in derive and kind == 'enum':
                variants = []
                for am in ATTR_RE.finditer(btxt):
                    attr = parse_attr(am.group(1))
                    rest = btxt[am.end():]
                    vm = re.search(r'(\w+)\s*\(\s*([^\n]+?)\s*\)\s*,', rest)
                    v = {'name': vm.group(1), 'rust_type': ' '.join(vm.group(2).split()), 'attr': attr['raw'], 'kind': attr['kind'], 'tags': attr['tags']}
                    if 'target' in attr:
                        v['target'] = attr['target']
                    if attr['kind'] == 'message':
                        v['message'] = '::'.join(resolve(strip_type(v['rust_type']), cur_mod))
                    if attr['kind'] == 'enumeration':
                        v['target_path'] = '::'.join(resolve(attr['target'], cur_mod))
                    if 'bytes_repr' in attr:
                        v['bytes_repr'] = attr['bytes_repr']
                    variants.append(v)
                items.append({'item': 'oneof', 'path': '::'.join(cur_mod + [name]), 'name': name, 'variants': variants})
            elif '::prost::Enumeration' in derive and kind == 'enum':
                vals = [[m2.group(1), int(m2.group(2))] for m2 in re.finditer(r'(\w+)\s*=\s*(-?\d+)\s*,', btxt)]
                items.append({'item': 'enum', 'path': '::'.join(cur_mod + [name]), 'name': name, 'values': vals})
            continue
        if s and not s.startswith('#['):
            pending_derive = ''
        opens, closes = line.count('{'), line.count('}')
        depth += opens - closes
        while mod_stack and depth <= mod_stack[-1][1]:
            mod_stack.pop()
        i += 1
    return items


def lib_modules(lib_rs):
    """file name -> module path (list) from `pub mod` nesting and include!()."""
    out = {}
    stack = []
    for line in open(lib_rs).read().split('\n'):
        s = line.strip()
        if s.startswith('//'):
            continue
        m = re.match(r'pub mod (r#)?(\w+) \{', s)
        if m:
            stack.append(m.group(2))
            continue
        m = re.search(r'include!\("proto/([^"]+)"\)', s)
        if m:
            out[m.group(1)] = list(stack)
            continue
        if s == '}':
            if stack:
                stack.pop()
    return out


def proto_package(mod):
    return '.'.join(mod)


def fq_name(path_segs, mod_len):
    """Rust path -> protobuf fully-qualified name: module part joined by '.', nested modules are
    snake_case names of the parent message (prost convention), so convert back to CamelCase."""
    pkg = path_segs[:mod_len]
    rest = path_segs[mod_len:]
    conv = []
    for i, r in enumerate(rest):
        if i < len(rest) - 1:
            conv.append(''.join(p.capitalize() if not p[:1].isupper() else p for p in r.split('_')))
        else:
            conv.append(r)
    return '.'.join(pkg + conv)


def main():
    mode = sys.argv[1]
    if mode == 'initia':
        src = sys.argv[2]
        mods = lib_modules(os.path.join(src, 'lib.rs'))
        schema = {'files': {}, 'items': {}}
        for fname in sorted(os.listdir(os.path.join(src, 'proto'))):
            if not fname.endswith('.rs'):
                continue
            if fname not in mods:
                schema['files'][fname] = None
                continue
            base = mods[fname]
            schema['files'][fname] = '::'.join(base)
            text = open(os.path.join(src, 'proto', fname)).read()
            for it in parse_items(text, base):
                it['file'] = fname
                it['package'] = proto_package(base)
                it['fq'] = fq_name(it['path'].split('::'), len(base))
                schema['items'][it['path']] = it
        # type url registry
        urls = []
        t = open(os.path.join(src, 'type_urls.rs')).read()
        for m in re.finditer(r'impl TypeUrl for ([\w:#]+)\s*\{\s*const TYPE_URL: &\'static str = "([^"]*)";', t):
            urls.append({'path': m.group(1).replace('r#', ''), 'rust': m.group(1), 'url': m.group(2)})
        schema['type_urls'] = urls
        json.dump(schema, open(sys.argv[3], 'w'), indent=0, sort_keys=True)
        if len(sys.argv) > 4:
            write_dispatch(schema, sys.argv[4], sys.argv[5])
        n = sum(1 for v in schema['items'].values() if v['item'] == 'message')
        print(f'{n} messages, {len(schema["items"]) - n} oneofs/enums, {len(urls)} type urls')
    elif mode == 'osmosis':
        root = sys.argv[2]
        schema = {'items': {}}
        for dp, _, files in os.walk(root):
            for f in files:
                if not f.endswith('.rs'):
                    continue
                rel = os.path.relpath(os.path.join(dp, f), root)
                segs = rel[:-3].split(os.sep)
                if segs[-1] == 'mod':
                    segs = segs[:-1]
                text = open(os.path.join(dp, f)).read()
                for it in parse_items(text, segs):
                    it['package'] = '.'.join(segs)
                    it['fq'] = fq_name(it['path'].split('::'), len(segs))
                    m = re.search(r'pub struct ' + it['name'] + r'\b', text)
                    schema['items'][it['path']] = it
                # type urls from #[proto_message(type_url = "...")]
                for m in re.finditer(r'#\[proto_message\(type_url = "([^"]+)"\)\]\s*(?:#\[[^\]]*\]\s*)*pub struct (\w+)', text):
                    p = '::'.join(segs + [m.group(2)])
                    if p in schema['items']:
                        schema['items'][p]['type_url'] = m.group(1)
        json.dump(schema, open(sys.argv[3], 'w'), indent=0, sort_keys=True)
        print(len(schema['items']), 'items')


def rust_path(p):
    return '::'.join('r#' + s if s in ('move', 'type', 'mod', 'fn', 'use', 'crate') else s for s in p.split('::'))


def write_dispatch(schema, out, crate):
    """Rust source: one registration per message type of the *current* tree."""
    lines = ['// @generated by tools/extract_schema.py from /repo\'s current tree — do not edit', 'pub fn register(r: &mut crate::Registry) {']
    for path, it in sorted(schema['items'].items()):
        if it['item'] != 'message':
            continue
        lines.append(f'    r.add::<{crate}::{rust_path(path)}>("{path}");')
    lines.append('}')
    # type URLs are discovered by the compiler, not by parsing type_urls.rs: for every message type the
    # macro registers the URL check iff the type implements TypeUrl (autoref specialisation at a concrete type)
    lines.append('pub fn register_urls(r: &mut crate::Registry) {')
    lines.append('    #[allow(unused_imports)]')
    lines.append('    use crate::{ViaNone, ViaUrl};')
    for path, it in sorted(schema['items'].items()):
        if it['item'] != 'message':
            continue
        lines.append(f'    (&&crate::Wrap::<{crate}::{rust_path(path)}>(std::marker::PhantomData)).reg_url(r, "{path}");')
    lines.append('}')
    new = '\n'.join(lines) + '\n'
    old = open(out).read() if os.path.exists(out) else None
    if old != new:
        os.makedirs(os.path.dirname(out), exist_ok=True)
        open(out, 'w').write(new)




def make_baseline():
    """One-off (run at the pinned commit): pins the schema and the list of types shared with osmosis-std.
       extract_schema.py baseline <initia schema.json> <osmosis schema.json> <baseline dir> <osmosis_dispatch.rs>"""
    a = json.load(open(sys.argv[2]))
    b = json.load(open(sys.argv[3]))
    outdir, disp = sys.argv[4], sys.argv[5]
    json.dump(a, open(os.path.join(outdir, 'initia_proto_schema.json'), 'w'), indent=0, sort_keys=True)
    bf = {v['fq']: v for v in b['items'].values() if v['item'] == 'message'}
    shared = {}
    lines = ['// @generated once by tools/extract_schema.py baseline from osmosis-std 0.25.0 (third-party, pinned)',
             'pub fn register(r: &mut crate::Registry) {']
    for path, v in sorted(a['items'].items()):
        if v['item'] != 'message' or v['fq'] not in bf:
            continue
        o = bf[v['fq']]
        same = [(f['name'], f['attr']) for f in v['fields']] == [(f['name'], f['attr']) for f in o['fields']]
        shared[path] = {'fq': v['fq'], 'osmosis_path': o['path'], 'identical_fields': same, 'type_url': o.get('type_url')}
        lines.append(f'    r.add_other::<osmosis_std::types::{rust_path(o["path"])}>("{path}");')
    lines.append('}')
    be = {v['fq']: v for v in b['items'].values() if v['item'] == 'enum'}
    for path, v in sorted(a['items'].items()):
        if v['item'] == 'enum' and v['fq'] in be:
            shared[path] = {'fq': v['fq'], 'osmosis_path': be[v['fq']]['path'], 'identical_fields': v['values'] == be[v['fq']]['values'], 'type_url': None}
    json.dump(shared, open(os.path.join(outdir, 'shared_with_osmosis_std.json'), 'w'), indent=0, sort_keys=True)
    open(disp, 'w').write('\n'.join(lines) + '\n')
    print(len(shared), 'shared;', sum(1 for s in shared.values() if s['identical_fields']), 'with identical field attributes')


if __name__ == '__main__':
    if len(sys.argv) > 1 and sys.argv[1] == 'baseline':
        make_baseline()
    else:
        main()
