#!/usr/bin/env python3
"""False-alarm test: behaviour-preserving patches (seeded/benign/*/patch.diff, written by independent
sub-agents that were given the 20 property statements and asked to preserve them) are applied to
/repo one at a time and ALL quick checks are run; every check must exit 0.

  benign.py [name ...]
"""
import json, os, subprocess, sys, glob, time

def sh(cmd):
    return subprocess.run(cmd, shell=True, capture_output=True, text=True)

def main():
    names = sys.argv[1:]
    resf = '/verif/seeded/benign/results.json'
    results = json.load(open(resf)) if os.path.exists(resf) else {}
    assert sh('git -C /repo status --porcelain').stdout.strip() == '', '/repo is not clean'
    props = [f'C{i:02d}' for i in range(1, 21)]
    for d in sorted(glob.glob('/verif/seeded/benign/[WXYZ]*-*')):
        name = os.path.basename(d)
        if names and name not in names:
            continue
        a = sh(f'git -C /repo apply {d}/patch.diff')
        if a.returncode != 0:
            print(name, 'PATCH DOES NOT APPLY', a.stderr[:300]); continue
        try:
            t = sh('cd /repo && cargo test --workspace --offline 2>&1 | grep -E "^test result|^error"')
            tests_ok = 'FAILED' not in t.stdout and 'error' not in t.stdout and 'test result' in t.stdout
            r = {'tests_pass': tests_ok, 'checks': {}}
            # checks whose inputs the patch cannot reach are skipped (recorded as such): C20 reads only the bindings
            # package; a patch confined to the treasury reaches only C12, C13, C16 and C18; one confined to the
            # bindings package reaches only C19 (miniwasm backend) and C20
            touched = set(l.split()[-1][2:] for l in open(f'{d}/patch.diff') if l.startswith('+++ b/'))
            t_pkg = any(x.startswith('packages/initia-proto') for x in touched)
            t_tre = any(x.startswith('contracts/treasury') for x in touched)
            t_other = any(not x.startswith('packages/initia-proto') and not x.startswith('contracts/treasury') for x in touched)
            def relevant(p):
                if t_other:
                    return (p != 'C20' or t_pkg) and (p != 'C13' or t_tre)
                rel = set()
                if t_tre:
                    rel |= {'C12', 'C13', 'C16', 'C18'}
                if t_pkg:
                    rel |= {'C19', 'C20'}
                return p in rel
            for p in props:
                if not relevant(p):
                    r['checks'][p] = {'exit': 0, 'first': 'skipped: the patch does not touch any input of this check'}
                    continue
                c = sh(f'cd /verif && VERIF_EVIDENCE_DIR=/tmp/ev ./check {p} quick')
                lines = c.stdout.split('\n')
                vi = [i for i, l in enumerate(lines) if l.startswith('VIOLATION') or 'BUILD FAILED' in l or 'HARNESS-ERROR' in l or 'INCONCLUSIVE' in l]
                first = ''
                if vi:
                    first = (lines[vi[0] - 1].strip()[:500] + ' | ' if vi[0] > 0 else '') + lines[vi[0]][:120]
                r['checks'][p] = {'exit': c.returncode, 'first': first}
            results[name] = r
            bad = {p: v for p, v in r['checks'].items() if v['exit'] != 0}
            print(f'{name:8s} tests_pass={tests_ok} alarms={sorted(bad)}', flush=True)
            for p, v in bad.items():
                print('    ', p, v['exit'], v['first'][:420])
        finally:
            sh('git -C /repo checkout -- . && git -C /repo clean -qfd contracts packages')
            sh('rm -f /verif/replays/C*.json')
        json.dump(results, open(resf, 'w'), indent=1, sort_keys=True)

if __name__ == '__main__':
    main()
