#!/usr/bin/env python3
"""Sensitivity testing with hand-made breaking edits (DESIGN 2.5).

  mutants.py list
  mutants.py run [<mutant id> ...]     # applies each edit to /repo, runs the unit tests and the
                                        # quick checks of the properties it should break, restores /repo

Each mutant is (id, properties it must break, file, old text, new text); `old` must occur exactly
once.  Results are appended to /verif/seeded/own/results.json, the patch to /verif/seeded/own/<id>.diff.
/repo is always restored with `git checkout -- .` afterwards.
"""
import json, os, subprocess, sys, time

R = '/repo/'
EX = 'contracts/staking/src/execute.rs'
HE = 'contracts/staking/src/helpers.rs'
IB = 'contracts/staking/src/ibc.rs'
CO = 'contracts/staking/src/contract.rs'
ST = 'contracts/staking/src/state.rs'
QU = 'contracts/staking/src/query.rs'
TY = 'contracts/staking/src/types.rs'
TE = 'contracts/treasury/src/execute.rs'
TS = 'contracts/treasury/src/state.rs'
MW = 'contracts/staking/src/tokenfactory/miniwasm.rs'
M11 = 'contracts/staking/src/migrations/v1_1_0.rs'
M10 = 'contracts/staking/src/migrations/v1_0_0.rs'
URL = 'packages/initia-proto/src/type_urls.rs'
TR = 'packages/initia-proto/src/traits.rs'

M = [
 # ---- C01
 ('c01-reward-adds-gross', ['C01', 'C11'], EX, 'state.total_native_token += amount_after_fees;', 'state.total_native_token += amount;'),
 ('c01-stake-forwards-less', ['C01'], EX, 'Coin::new(amount.u128(), &config.protocol_chain_config.ibc_token_denom),\n        None,\n    )?;\n    // Get the stake sub message id', 'Coin::new(amount.u128() - 1, &config.protocol_chain_config.ibc_token_denom),\n        None,\n    )?;\n    // Get the stake sub message id'),
 ('c01-submit-subtracts-lst', ['C01', 'C04'], EX, '.checked_sub(unbond_amount)\n        .unwrap_or_else(|_| Uint128::zero());', '.checked_sub(batch.batch_total_liquid_stake)\n        .unwrap_or_else(|_| Uint128::zero());'),
 ('c01-timeout-touches-total', ['C01'], IB, '    inflight_packet.status = state::ibc::PacketLifecycleStatus::TimedOut;\n', '    inflight_packet.status = state::ibc::PacketLifecycleStatus::TimedOut;\n    crate::state::STATE.update(deps.storage, |mut s| -> Result<_, cosmwasm_std::StdError> { if inflight_packet.amount.denom == config.protocol_chain_config.ibc_token_denom { s.total_native_token = s.total_native_token.saturating_sub(inflight_packet.amount.amount); } Ok(s) })?;\n'),
 # ---- C02
 ('c02-withdraw-keeps-claim', ['C02', 'C05'], EX, '    remove_unstake_request(&mut deps, info.sender.to_string(), batch.id)?;\n', ''),
 ('c02-fee-accrued-and-paid', ['C02', 'C11'], EX, '    if config.protocol_fee_config.treasury_address.is_none() {\n        state.total_fees += fee;\n    }', '    state.total_fees += fee;'),
 ('c02-feewithdraw-bound-dropped', ['C02', 'C11', 'C16'], EX, '    if state.total_fees < amount {\n        return Err(ContractError::InsufficientFunds {});\n    }', ''),
 ('c02-recover-keeps-packets', ['C02', 'C07'], EX, '        INFLIGHT_PACKETS.remove(deps.storage, packet.sequence);\n', ''),
 # ---- C03
 ('c03-native-delivery-paid-amount', ['C03'], EX, 'Coin::new(mint_amount.u128(), &config.liquid_stake_token_denom),', 'Coin::new(amount.u128(), &config.liquid_stake_token_denom),'),
 ('c03-burn-expected', ['C03'], EX, '    // Issue tokenfactory burn message', '    let unbond_for_burn = compute_unbond_amount(state.total_native_token, state.total_liquid_stake_token, batch.batch_total_liquid_stake);\n    // Issue tokenfactory burn message'),
 ('c03-flag-ignored', ['C03'], EX, 'if transfer_to_native_chain.unwrap_or(false) {', 'if transfer_to_native_chain.unwrap_or(true) {'),
 # ---- C04
 ('c04-min-strict', ['C04'], EX, 'amount >= config.protocol_chain_config.minimum_liquid_stake_amount,', 'amount > config.protocol_chain_config.minimum_liquid_stake_amount,'),
 ('c04-slippage-strict', ['C04'], EX, 'mint_amount >= expected_mint_amount,', 'mint_amount > expected_mint_amount,'),
 ('c04-zero-mint-allowed', ['C04'], EX, '    if mint_amount.is_zero() {\n        return Err(ContractError::MintError {});\n    }', ''),
 ('c04-mint-ceil', ['C04'], HE, 'total_liquid_stake_token.multiply_ratio(native_to_stake, total_native_token)', '{ let r = total_liquid_stake_token.multiply_ratio(native_to_stake, total_native_token); if r.multiply_ratio(total_native_token, total_liquid_stake_token.max(Uint128::one())) < native_to_stake && !total_liquid_stake_token.is_zero() { r + Uint128::one() } else { r } }'),
 # ---- C05
 ('c05-ratio-expected', ['C05', 'C02'], EX, 'let received_native_unstaked = batch.received_native_unstaked.as_ref().unwrap();', 'let received_native_unstaked = batch.expected_native_unstaked.as_ref().unwrap();'),
 ('c05-unstake-overwrites', ['C05'], EX, 'amount: r.amount + amount,', 'amount,'),
 ('c05-count-always', ['C05'], EX, '            if is_new_request {\n                batch.unstake_requests_count = Some(batch.unstake_requests_count.unwrap_or(0) + 1);\n            }', '            batch.unstake_requests_count = Some(batch.unstake_requests_count.unwrap_or(0) + 1);'),
 # ---- C06
 ('c06-submit-early', ['C06'], EX, 'if env.block.time.seconds() < est_next_batch_time {', 'if env.block.time.seconds() + 1 < est_next_batch_time {'),
 ('c06-receive-early', ['C06'], EX, 'if next_batch_action_time > env.block.time.seconds() {', 'if next_batch_action_time > env.block.time.seconds() + 1 {'),
 ('c06-empty-check-dropped', ['C06'], EX, '    if unstake_requests == 0 {\n        return Err(ContractError::BatchEmpty {});\n    }', ''),
 ('c06-status-check-dropped', ['C06', 'C02'], EX, '    if batch.status != BatchStatus::Submitted {\n        return Err(ContractError::BatchNotClaimable {\n            batch_id: batch.id,\n            status: batch.status,\n        });\n    }\n\n    if batch.next_batch_action_time.is_none()', '    if batch.next_batch_action_time.is_none()'),
 # ---- C07
 ('c07-success-ack-keeps', ['C07'], IB, '        INFLIGHT_PACKETS.remove(deps.storage, sequence);\n', ''),
 ('c07-status-filter-dropped', ['C07'], EX, '                r.receiver == receiver\n                    && (r.status == PacketLifecycleStatus::AckFailure\n                        || r.status == PacketLifecycleStatus::TimedOut)', '                r.receiver == receiver'),
 ('c07-receiver-filter-dropped', ['C07'], EX, '                r.receiver == receiver\n                    && (r.status', '                (r.status'),
 ('c07-channel-check-dropped', ['C07'], IB, '    if source_channel != config.protocol_chain_config.ibc_channel_id {\n        // If the ack is not for this contract, return a success\n        return Ok(Response::new()\n            .add_attribute("action", "receive_ack")\n            .add_attribute("error", "received ack for different channel"));\n    }', ''),
 ('c07-reply-ignores-failure', ['C07'], EX, '    let SubMsgResult::Ok(SubMsgResponse { data: Some(b), .. }) = msg.result else {\n        return Err(ContractError::FailedIBCTransfer {\n            msg: format!("failed reply: {:?}", msg.result),\n        });\n    };', '    let SubMsgResult::Ok(SubMsgResponse { data: Some(b), .. }) = msg.result else {\n        IBC_WAITING_FOR_REPLY.remove(deps.storage, msg.id);\n        return Ok(Response::new());\n    };'),
 # ---- C08
 ('c08-resume-no-admin', ['C08', 'C10'], EX, '    total_reward_amount: Uint128,\n) -> ContractResult<Response> {\n    ADMIN.assert_admin(deps.as_ref(), &info.sender)?;\n', '    total_reward_amount: Uint128,\n) -> ContractResult<Response> {\n'),
 ('c08-forced-recovery-open', ['C08', 'C07'], EX, '    if selected_packets.is_some() {\n        ADMIN.assert_admin(deps.as_ref(), &info.sender)?;\n    }', ''),
 ('c08-unstaked-accepts-collector', ['C08', 'C09'], EX, '        config.native_chain_config.staker_address.as_str(),\n        &config.protocol_chain_config.account_address_prefix,\n    );\n    if expected_sender.is_err() {', '        config.native_chain_config.reward_collector_address.as_str(),\n        &config.protocol_chain_config.account_address_prefix,\n    );\n    if expected_sender.is_err() {'),
 # ---- C09
 ('c09-separator', ['C09'], HE, 'let sender_str = format!("{channel_id}/{original_sender}");', 'let sender_str = format!("{channel_id}{original_sender}");'),
 ('c09-single-hash', ['C09'], HE, '    hasher.update(th);\n    hasher.update(key);', '    hasher.update(key);'),
 # ---- C10
 ('c10-unstake-unguarded', ['C10'], EX, '    let config = CONFIG.load(deps.storage)?;\n\n    check_stopped(&config)?;\n\n    STATE.load(deps.storage)?;', '    let _config = CONFIG.load(deps.storage)?;\n\n    STATE.load(deps.storage)?;'),
 ('c10-starts-running', ['C10'], CO, 'stopped: true, // we start stopped', 'stopped: false,'),
 ('c10-resume-clears-fees', ['C10'], EX, '            state.total_reward_amount = total_reward_amount;\n            Ok(state)', '            state.total_reward_amount = total_reward_amount;\n            state.total_fees = Uint128::zero();\n            Ok(state)'),
 # ---- C11
 ('c11-denominator', ['C11'], EX, '.checked_multiply_ratio(amount, 100_000u128)', '.checked_multiply_ratio(amount, 10_000u128)'),
 ('c11-reward-counter-net', ['C11'], EX, 'state.total_reward_amount += amount;', 'state.total_reward_amount += amount_after_fees;'),
 ('c11-feewithdraw-to-admin', ['C11', 'C02'], EX, '        to_address: treasury_address.clone(),\n        amount: vec![OsmosisCoin {\n            denom: config.protocol_chain_config.ibc_token_denom,', '        to_address: info.sender.to_string(),\n        amount: vec![OsmosisCoin {\n            denom: config.protocol_chain_config.ibc_token_denom,'),
 # ---- C12
 ('c12-six-days', ['C12'], EX, '_env.block.time.seconds() + 60 * 60 * 24 * 7,', '_env.block.time.seconds() + 60 * 60 * 24 * 6,'),
 ('c12-treasury-ge', ['C12'], TE, '&& state.owner_transfer_min_time.unwrap().seconds() > _env.block.time.seconds()', '&& state.owner_transfer_min_time.unwrap().seconds() >= _env.block.time.seconds()'),
 ('c12-revoke-keeps-nominee', ['C12'], EX, '    state.pending_owner = None;\n    state.owner_transfer_min_time = None;\n\n    STATE.save(deps.storage, &state)?;\n\n    Ok(Response::new().add_attribute("action", "revoke_ownership_transfer"))', '    state.owner_transfer_min_time = None;\n\n    STATE.save(deps.storage, &state)?;\n\n    Ok(Response::new().add_attribute("action", "revoke_ownership_transfer"))'),
 # ---- C13
 ('c13-prefix-match', ['C13'], TS, '.any(|allowed_route| allowed_route.eq(swap_route))', '.any(|allowed_route| allowed_route.starts_with(swap_route))'),
 ('c13-trader-check-dropped', ['C13'], TE, '    config.assert_trader(&info.sender)?;\n    config.assert_allowed_swap_route(&swap_routes)?;\n    // Check that the last route', '    config.assert_allowed_swap_route(&swap_routes)?;\n    // Check that the last route'),
 ('c13-spend-prefix-swapped', ['C13'], TE, 'validate_address(&receiver, "celestia")?;', 'validate_address(&receiver, "osmo")?;'),
 # ---- C14
 ('c14-monitors-native-prefix', ['C14'], EX, '            &monitors,\n            &config.protocol_chain_config.account_address_prefix,', '            &monitors,\n            &config.native_chain_config.account_address_prefix,'),
 ('c14-dup-check-dropped', ['C14'], HE, '        if seen.contains(address) {\n            return Err(StdError::generic_err("Duplicate address"));\n        }', ''),
 ('c14-channel-sign', ['C14'], TY, '.map(|n| n.chars().all(|c| c.is_ascii_digit()) && n.parse::<u64>().is_ok())', '.map(|n| n.parse::<u64>().is_ok())'),
 # ---- C15
 ('c15-rates-swapped', ['C15'], EX, '        purchase_rate: purchase_rate.to_string(),\n        redemption_rate: redemption_rate.to_string(),', '        purchase_rate: redemption_rate.to_string(),\n        redemption_rate: purchase_rate.to_string(),'),
 ('c15-submit-stale', ['C15'], EX, '    let mut state = STATE.load(deps.storage)?;\n\n    // TODO: Circuit break?', '    let stale_oracle_msgs = update_oracle_msgs(deps.as_ref(), &env, &config)?;\n    let mut state = STATE.load(deps.storage)?;\n\n    // TODO: Circuit break?'),
 # ---- C16
 ('c16-oracle-unwrap', ['C16', 'C15'], EX, '    let Some(oracle_address) = config.protocol_chain_config.oracle_address.as_ref() else {\n        return Ok(vec![]);\n    };', '    let oracle_address = config.protocol_chain_config.oracle_address.as_ref().unwrap();'),
 # ---- C17
 ('c17-inclusive-cursor', ['C17'], HE, 'Order::Ascending => (start_after.map(Bound::exclusive), None),', 'Order::Ascending => (start_after.map(Bound::inclusive), None),'),
 ('c17-limit-counts-filtered', ['C17'], HE, '                    } else {\n                        continue;\n                    }', '                    } else {\n                        taken += 1;\n                        continue;\n                    }'),
 # ---- C18
 ('c18-status-reset', ['C18'], M11, 'status: packet.status,', 'status: crate::state::ibc::PacketLifecycleStatus::Sent,'),
 ('c18-receiver-collector', ['C18'], M11, 'receiver: config.native_chain_config.staker_address.to_string(),\n                status', 'receiver: config.native_chain_config.reward_collector_address.to_string(),\n                status'),
 ('c18-gate-removed', ['C18'], M11, '    assert_contract_version(deps.storage, CONTRACT_NAME, FROM_VERSION)?;\n', ''),
 # ---- C19
 ('c19-miniwasm-url', ['C19'], MW, 'type_url: "/miniwasm.tokenfactory.v1.MsgBurn".to_string(),', 'type_url: "/miniwasm.tokenfactory.v1.MsgMint".to_string(),'),
 ('c19-miniwasm-subdenom-lowercased', ['C19'], MW, '    let bytes = MsgCreateDenom { sender, subdenom }', '    let bytes = MsgCreateDenom { sender, subdenom: subdenom.to_lowercase() }'),
 # ---- C20
 ('c20-url-check-dropped', ['C20'], TR, 'if any.type_url == Self::TYPE_URL {', 'if any.type_url == Self::TYPE_URL || !any.type_url.is_empty() {'),
]

# second-stage edits needed by some mutants (applied after the first one)
EXTRA = {
 'c03-burn-expected': [(EX, '            amount: batch.batch_total_liquid_stake,\n        },\n        env.contract.address.to_string(),\n    )?;\n\n    let unbond_amount', '            amount: unbond_for_burn,\n        },\n        env.contract.address.to_string(),\n    )?;\n\n    let unbond_amount')],
 'c15-submit-stale': [(EX, '    let update_oracle_msgs = update_oracle_msgs(deps.as_ref(), &env, &config)?;\n\n    Ok(Response::new()\n        .add_message(tokenfactory_burn_msg)', '    let update_oracle_msgs = stale_oracle_msgs;\n\n    Ok(Response::new()\n        .add_message(tokenfactory_burn_msg)')],
}


def sh(cmd, **kw):
    return subprocess.run(cmd, shell=True, capture_output=True, text=True, **kw)


def apply(fn, old, new):
    s = open(R + fn).read()
    if s.count(old) != 1:
        raise SystemExit(f'{fn}: pattern occurs {s.count(old)} times: {old[:60]!r}')
    open(R + fn, 'w').write(s.replace(old, new))


def main():
    if len(sys.argv) < 2 or sys.argv[1] == 'list':
        for m in M:
            print(m[0], m[1])
        return
    want = set(sys.argv[2:])
    os.makedirs('/verif/seeded/own', exist_ok=True)
    resf = '/verif/seeded/own/results.json'
    results = json.load(open(resf)) if os.path.exists(resf) else {}
    assert sh('git -C /repo status --porcelain').stdout.strip() == '', '/repo is not clean'
    for mid, props, fn, old, new in M:
        if want and mid not in want:
            continue
        try:
            apply(fn, old, new)
            for (f2, o2, n2) in EXTRA.get(mid, []):
                apply(f2, o2, n2)
            open(f'/verif/seeded/own/{mid}.diff', 'w').write(sh('git -C /repo diff').stdout)
            t = sh('cd /repo && cargo test --workspace --offline 2>&1 | grep -E "^test result|^error" ')
            tests_ok = 'FAILED' not in t.stdout and 'error' not in t.stdout and 'test result' in t.stdout
            r = {'tests_pass': tests_ok, 'checks': {}}
            for p in props:
                t0 = time.time()
                c = sh(f'cd /verif && VERIF_EVIDENCE_DIR=/tmp/ev ./check {p} quick')
                line = [l for l in c.stdout.split('\n') if l.startswith('VIOLATION') or 'BUILD FAILED' in l or 'HARNESS-ERROR' in l]
                r['checks'][p] = {'exit': c.returncode, 'wall_s': round(time.time() - t0, 1), 'first': (line[0][:160] if line else '')}
            results[mid] = r
            caught = [p for p, v in r['checks'].items() if v['exit'] == 1]
            print(f'{mid:34s} tests_pass={tests_ok!s:5s} caught_by={caught} exits={[v["exit"] for v in r["checks"].values()]}', flush=True)
        finally:
            sh('git -C /repo checkout -- .')
            sh('rm -f /verif/replays/C*.json')
        json.dump(results, open(resf, 'w'), indent=1, sort_keys=True)


if __name__ == '__main__':
    main()
