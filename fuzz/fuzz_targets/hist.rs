#![no_main]
//! Coverage-guided histories: the fuzzer's bytes drive the *same* proptest generators through
//! proptest's pass-through RNG, so libFuzzer mutates structured (Setup, Vec<Op>) cases.
//! VERIF_FUZZ_PROP selects the property whose tagged comparisons count (default: all).
use harness::fuzzing::*;
use libfuzzer_sys::fuzz_target;

fuzz_target!(|data: &[u8]| {
    if let Some(case) = case_from_bytes(data) {
        if let Some((prop, msg)) = run_history_case(&case) {
            report_and_abort(&prop, &msg, &serde_json::to_value(&case).unwrap());
        }
    }
});
