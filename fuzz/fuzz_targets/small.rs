#![no_main]
//! One target for the non-history generators (first byte selects: config corruption, treasury,
//! ownership sequences, rate arithmetic, hooks derivation, page walks, migrations, hostile calls).
use harness::fuzzing::*;
use libfuzzer_sys::fuzz_target;

fuzz_target!(|data: &[u8]| {
    if let Some((prop, msg, case)) = run_small_case(data) {
        report_and_abort(&prop, &msg, &case);
    }
});
