#!/bin/bash
# Builds the harness offline from files on disk (cold: ~3 min).
set -e
cd /verif
export CARGO_NET_OFFLINE=true
cargo build --release --offline 2>&1 | tail -3
cargo build --release --offline --features miniwasm --target-dir /verif/target-mw 2>&1 | tail -3
./target/release/harness selftest
./target-mw/release/harness selftest
