#!/bin/bash
# Builds the harness offline from files on disk (cold: ~3 min).
set -e
cd /verif
export CARGO_NET_OFFLINE=true
mkdir -p target/c20 protocheck/src/gen
python3 tools/extract_schema.py initia /repo/packages/initia-proto/src target/c20/current_schema.json protocheck/src/gen/dispatch.rs initia_proto
cargo build --release --offline 2>&1 | tail -3
cargo build --release --offline -p harness --features miniwasm --target-dir /verif/target-mw 2>&1 | tail -3
./target/release/harness selftest
./target-mw/release/harness selftest
# libFuzzer targets for the thorough tier (optional: a failure here only disables that stage)
( cd fuzz && cp -n ../Cargo.lock Cargo.lock; cargo fuzz build -s none 2>&1 | tail -1 ) || echo "fuzz targets not built; thorough tiers will skip the libFuzzer stage"
