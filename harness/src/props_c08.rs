//! C08: authorization matrix.  A reachable state is produced by a generated history; then every
//! message variant is submitted by every principal, each on its own copy of the state.

use crate::crypto::{hooks_sender, sha256};
use crate::engine::Engine;
use crate::model::{BStatus, PStatus};
use crate::ops::*;
use crate::runner::*;
use crate::sim::ErrKind;
use crate::world::*;
use cosmwasm_std::{Addr, Coin, Uint128};
use proptest::prelude::*;
use serde::{Deserialize, Serialize};
use staking::msg::{ExecuteMsg, QueryMsg};
use staking::state::UnstakeRequest;

#[derive(Clone, Debug, Serialize, Deserialize)]
pub struct C08Case {
    pub case: Case,
    pub salt: u8,
}

pub fn profile() -> Profile {
    let mut p = Profile::base("C08");
    p.len = (15, 60);
    p.w_owner = 6;
    p.w_config = 4;
    p.w_validator = 2;
    p.w_resolve = 12;
    p.w_recover = 3;
    p.w_advance = 10;
    p
}

pub fn c08_case() -> BoxedStrategy<C08Case> {
    (case_strategy(&profile()), any::<u8>(), proptest::option::weighted(0.5, (0u8..40, 0u8..8, 0u8..5)))
        .prop_map(|(mut case, salt, handover)| {
            case.setup.n_monitors = case.setup.n_monitors.max(1);
            if let Some((at, to, then)) = handover {
                // splice a completed (or pending) handover into the history so that former admins,
                // nominees and re-nominations are common in the probed states
                let at = (at as usize).min(case.ops.len());
                let mut ins = if then >= 3 {
                    // a nomination that is replaced (3) or revoked (4): the first nominee must have lost the right
                    vec![
                        Op::Ownership { user: Caller::Admin, act: OwnAct::Transfer(Caller::User(to)) },
                        Op::Advance(TimeSel::OwnerDue(1 + to % 2)),
                        if then == 3 { Op::Ownership { user: Caller::Admin, act: OwnAct::Transfer(Caller::User(to ^ 1)) } } else { Op::Ownership { user: Caller::Admin, act: OwnAct::Revoke } },
                    ]
                } else {
                    vec![
                        Op::Ownership { user: Caller::Admin, act: OwnAct::Transfer(Caller::User(to)) },
                        Op::Advance(TimeSel::OwnerDue(1 + then % 2)),
                        Op::Ownership { user: Caller::Nominee, act: OwnAct::Accept },
                    ]
                };
                if then == 2 {
                    ins.push(Op::Ownership { user: Caller::Admin, act: OwnAct::Transfer(Caller::FormerAdmin) });
                }
                for (k, op) in ins.into_iter().enumerate() {
                    case.ops.insert(at + k, op);
                }
            }
            C08Case { case, salt }
        })
        .boxed()
}

#[derive(Clone, Copy, Debug, PartialEq, Eq)]
enum Right {
    Admin,
    AdminOrMonitor,
    Nominee,
    RewardHook,
    StakerHook,
    Anyone,
}

struct Probe {
    name: &'static str,
    msg: ExecuteMsg,
    funds: Vec<Coin>,
    right: Right,
    /// clock for this probe (acceptance needs the time lock to have passed)
    time_s: Option<u64>,
}

pub fn check_c08_case(c: &C08Case, agg: &mut Agg) -> Result<(), String> {
    let mut e = match Engine::try_new(&c.case.setup)? {
        Some(e) => e,
        None => return Ok(()),
    };
    for op in &c.case.ops {
        if e.viol.is_some() {
            break;
        }
        e.run_op(op);
    }
    if let Some(v) = &e.viol {
        if v.tags.contains(&"C08") {
            return Err(format!("step {}: {}", v.step, v.msg));
        }
        agg.foreign_divergences += 1;
        return Ok(());
    }
    // the privileged part of the matrix is also probed on a halted copy of the same state
    let mut halted_copy: Option<Engine> = None;
    if e.m.halted {
        halted_copy = Some(e.clone());
        // bring the contract back so that the hook and user messages are meaningful
        e.run_op(&Op::Resume { user: Caller::Admin, mode: ResumeMode::Same });
        if e.viol.is_some() || e.m.halted {
            return Ok(());
        }
    } else if c.salt % 2 == 0 {
        let mut h = e.clone();
        h.run_op(&Op::CircuitBreaker { user: Caller::Admin });
        if h.viol.is_none() && h.m.halted {
            halted_copy = Some(h);
        }
    }
    let a = e.a.clone();
    let m = e.m.clone();
    let now = e.ch.now_s();
    // ---- principals
    let staker_hook = hooks_sender(&m.cfg.channel, &m.cfg.staker, &a.pprefix);
    let reward_hook = hooks_sender(&m.cfg.channel, &m.cfg.collector, &a.pprefix);
    let mut principals: Vec<(&'static str, String)> = vec![
        ("admin", m.admin.clone()),
        ("former-admin-or-user", m.former_admin.clone().unwrap_or_else(|| a.users[0].clone())),
        ("nominee-or-user", m.nominee.clone().unwrap_or_else(|| a.users[1 % a.users.len()].clone())),
        ("staker-hook", staker_hook.clone()),
        ("reward-hook", reward_hook.clone()),
        ("staker-hook-wrong-channel", hooks_sender(&a.other_channel, &m.cfg.staker, &a.pprefix)),
        ("reward-hook-wrong-sender", hooks_sender(&m.cfg.channel, &a.natives[c.salt as usize % a.natives.len()], &a.pprefix)),
        ("staker-hook-native-prefix", hooks_sender(&m.cfg.channel, &m.cfg.staker, &a.nprefix)),
        ("staker-native-address", m.cfg.staker.clone()),
        ("collector-native-address", m.cfg.collector.clone()),
        ("contract-itself", a.contract.clone()),
        ("user", a.users[c.salt as usize % a.users.len()].clone()),
        ("initial-admin", a.admin0.clone()),
    ];
    if let Some(s) = &m.superseded {
        if Some(s) != m.nominee.as_ref() && *s != m.admin {
            principals.push(("superseded-nominee", s.clone()));
        }
    }
    for (i, mon) in m.cfg.monitors.iter().enumerate().take(2) {
        principals.push((if i == 0 { "monitor0" } else { "monitor1" }, mon.clone()));
    }
    // ---- probes
    let fresh_val = a.validators.iter().find(|v| !m.cfg.validators.contains(v)).cloned();
    let refundable: Vec<u64> = m.packets.values().filter(|p| p.status != PStatus::Sent && p.receiver == m.cfg.staker).map(|p| p.seq).collect();
    let due_batch = m.batches.values().filter(|b| b.status == BStatus::Submitted).map(|b| (b.id, b.due.unwrap_or(now), b.expected.unwrap_or(1))).next();
    let claim = m.batches.values().filter(|b| b.status == BStatus::Received).find_map(|b| b.reqs.keys().next().map(|u| (b.id, u.clone())));
    let mut probes: Vec<Probe> = vec![];
    if let Some(v) = fresh_val {
        probes.push(Probe { name: "AddValidator", msg: ExecuteMsg::AddValidator { new_validator: v }, funds: vec![], right: Right::Admin, time_s: None });
    }
    if let Some(v) = m.cfg.validators.first() {
        probes.push(Probe { name: "RemoveValidator", msg: ExecuteMsg::RemoveValidator { validator: v.clone() }, funds: vec![], right: Right::Admin, time_s: None });
    }
    probes.push(Probe {
        name: "UpdateConfig",
        msg: ExecuteMsg::UpdateConfig { native_chain_config: None, protocol_chain_config: None, protocol_fee_config: None, monitors: if c.salt % 2 == 0 { Some(vec![]) } else { None }, batch_period: Some(777) },
        funds: vec![],
        right: Right::Admin,
        time_s: None,
    });
    probes.push(Probe { name: "TransferOwnership", msg: ExecuteMsg::TransferOwnership { new_owner: a.users[0].clone() }, funds: vec![], right: Right::Admin, time_s: None });
    probes.push(Probe { name: "RevokeOwnershipTransfer", msg: ExecuteMsg::RevokeOwnershipTransfer {}, funds: vec![], right: Right::Admin, time_s: None });
    probes.push(Probe {
        name: "ResumeContract",
        msg: ExecuteMsg::ResumeContract {
            total_native_token: Uint128::new(m.n + 5),
            total_liquid_stake_token: Uint128::new(if m.l == 0 { 0 } else { m.l + 5 }),
            total_reward_amount: Uint128::new(9),
        },
        funds: vec![],
        right: Right::Admin,
        time_s: None,
    });
    probes.push(Probe {
        name: "FeeWithdraw",
        msg: ExecuteMsg::FeeWithdraw { amount: Uint128::new(if m.fees_unbacked { 0 } else { m.fees.min(1) }) },
        funds: vec![],
        right: Right::Admin,
        time_s: None,
    });
    if let Some(id) = refundable.first() {
        probes.push(Probe {
            name: "RecoverForced",
            msg: ExecuteMsg::RecoverPendingIbcTransfers { paginated: None, selected_packets: Some(vec![*id]), receiver: None },
            funds: vec![],
            right: Right::Admin,
            time_s: None,
        });
    }
    let inflight_ids: Vec<u64> = m.packets.values().filter(|p| p.status == PStatus::Sent && p.receiver == m.cfg.staker).map(|p| p.seq).collect();
    if let Some(id) = inflight_ids.first() {
        probes.push(Probe {
            name: "RecoverForcedInFlight",
            msg: ExecuteMsg::RecoverPendingIbcTransfers { paginated: None, selected_packets: Some(vec![*id]), receiver: None },
            funds: vec![],
            right: Right::Admin,
            time_s: None,
        });
    }
    probes.push(Probe { name: "CircuitBreaker", msg: ExecuteMsg::CircuitBreaker {}, funds: vec![], right: Right::AdminOrMonitor, time_s: None });
    if let Some(t) = m.earliest {
        probes.push(Probe { name: "AcceptOwnership", msg: ExecuteMsg::AcceptOwnership {}, funds: vec![], right: Right::Nominee, time_s: Some(t.max(now)) });
    } else {
        probes.push(Probe { name: "AcceptOwnership(none pending)", msg: ExecuteMsg::AcceptOwnership {}, funds: vec![], right: Right::Nominee, time_s: None });
    }
    probes.push(Probe { name: "ReceiveRewards", msg: ExecuteMsg::ReceiveRewards {}, funds: vec![Coin::new(1_000_000u128, STAKED_DENOM)], right: Right::RewardHook, time_s: None });
    if let Some((id, due, expected)) = due_batch {
        probes.push(Probe {
            name: "ReceiveUnstakedTokens",
            msg: ExecuteMsg::ReceiveUnstakedTokens { batch_id: id },
            funds: vec![Coin::new(expected.max(1), STAKED_DENOM)],
            right: Right::StakerHook,
            time_s: Some(due.max(now)),
        });
    }
    if let Some((id, _)) = &claim {
        probes.push(Probe { name: "Withdraw", msg: ExecuteMsg::Withdraw { batch_id: *id }, funds: vec![], right: Right::Anyone, time_s: None });
    }
    probes.push(Probe {
        name: "LiquidStake",
        msg: ExecuteMsg::LiquidStake { mint_to: Some(a.users[0].clone()), transfer_to_native_chain: None, expected_mint_amount: None },
        funds: vec![Coin::new(m.cfg.min_stake.max(1000) * 1000, STAKED_DENOM)],
        right: Right::Anyone,
        time_s: None,
    });
    probes.push(Probe { name: "SubmitBatch", msg: ExecuteMsg::SubmitBatch {}, funds: vec![], right: Right::Anyone, time_s: Some(m.batches[&m.pending].due.unwrap_or(now).max(now)) });
    probes.push(Probe { name: "RecoverPlain", msg: ExecuteMsg::RecoverPendingIbcTransfers { paginated: Some(true), selected_packets: None, receiver: None }, funds: vec![], right: Right::Anyone, time_s: None });
    let all_users: Vec<String> = a.users.clone();
    let mut nontrivial = false;
    let mut trace = String::new();
    let mut bases: Vec<(&'static str, Engine)> = vec![("running", e.clone())];
    if let Some(h) = halted_copy {
        bases.push(("halted", h));
    }
    for (state_label, base) in &bases {
    for p in &probes {
        if *state_label == "halted" && !matches!(p.right, Right::Admin | Right::AdminOrMonitor | Right::Nominee) {
            continue;
        }
        // does the message succeed for its rightful principal in this state?
        let rightful: Option<String> = match p.right {
            Right::Admin | Right::AdminOrMonitor => Some(m.admin.clone()),
            Right::Nominee => m.nominee.clone(),
            Right::RewardHook => Some(reward_hook.clone()),
            Right::StakerHook => Some(staker_hook.clone()),
            Right::Anyone => None,
        };
        let run = |who: &str| {
            let mut x = base.clone();
            if let Some(t) = p.time_s {
                x.ch.time_ns = t * 1_000_000_000;
            }
            for c in &p.funds {
                x.ch.faucet(who, &c.denom, c.amount.u128());
            }
            let before = x.ch.w.clone();
            let reqs_before: Vec<Vec<UnstakeRequest>> =
                all_users.iter().map(|u| x.ch.query(QueryMsg::UnstakeRequests { user: Addr::unchecked(u) }).unwrap_or_default()).collect();
            let out = x.ch.execute(who, &p.funds, p.msg.clone());
            let reqs_after: Vec<Vec<UnstakeRequest>> =
                all_users.iter().map(|u| x.ch.query(QueryMsg::UnstakeRequests { user: Addr::unchecked(u) }).unwrap_or_default()).collect();
            (out, before, x.ch.w.clone(), reqs_before, reqs_after)
        };
        let rightful_ok = rightful.as_ref().map(|r| run(r).0.ok).unwrap_or(false);
        for (label, who) in &principals {
            let authorized = match p.right {
                Right::Admin => *who == m.admin,
                Right::AdminOrMonitor => *who == m.admin || m.cfg.monitors.contains(who),
                Right::Nominee => m.nominee.as_ref() == Some(who),
                Right::RewardHook => *who == reward_hook,
                Right::StakerHook => *who == staker_hook,
                Right::Anyone => true,
            };
            let (out, before, after, rb, ra) = run(who);
            let what = format!("{} by {label} ({who}) [{state_label}]; admin={} nominee={:?} monitors={:?}", p.name, m.admin, m.nominee, m.cfg.monitors);
            if let Some(pn) = &out.panic {
                return Err(format!("{what}: panic {} at {}", pn.message, pn.location));
            }
            if !authorized {
                if out.ok {
                    return Err(format!("{what}: accepted although the caller is not entitled"));
                }
                if before != after {
                    return Err(format!("{what}: rejected but state or ledgers changed"));
                }
                if rightful_ok {
                    nontrivial = true;
                    *agg.counters.entry(format!("denied_where_rightful_succeeds.{}{}", p.name, if *state_label == "halted" { "@halted" } else { "" })).or_insert(0) += 1;
                }
            } else {
                let auth_error = matches!(out.kind, Some(ErrKind::Auth)) || (p.right == Right::Nominee && matches!(out.kind, Some(ErrKind::NoPendingOwner)));
                if auth_error {
                    return Err(format!("{what}: entitled caller got an authorization error: {:?}", out.err));
                }
                if p.right != Right::Anyone && out.ok {
                    *agg.counters.entry(format!("granted.{}", p.name)).or_insert(0) += 1;
                }
            }
            if p.name == "Withdraw" && out.ok {
                // only the caller's own request is consumed and only the caller is paid
                for (i, u) in all_users.iter().enumerate() {
                    if u != who && rb[i] != ra[i] {
                        return Err(format!("{what}: changed the unstake requests of {u}"));
                    }
                }
                let d = Engine::bank_delta(&before.bank, &after.bank);
                let ok = d.keys().all(|(acct, _)| acct == who || *acct == a.contract);
                if !ok {
                    return Err(format!("{what}: paid someone other than the caller: {:?}", d));
                }
                *agg.counters.entry("withdraw_own_only".into()).or_insert(0) += 1;
            }
            trace.push_str(&format!("{}:{}:{};", p.name, label, out.ok));
        }
    }
    if *state_label == "halted" {
        *agg.flags.entry("privileged_matrix_on_halted_copy".into()).or_insert(0) += 1;
    }
    }
    agg.evaluations += 1;
    agg.steps += e.stats.steps as u64;
    *agg.counters.entry("matrix_cells".into()).or_insert(0) += (probes.len() * principals.len()) as u64;
    if nontrivial {
        let h = sha256(format!("{}{}", e.stats.trace_hash, trace).as_bytes());
        agg.nontrivial.insert(u64::from_le_bytes(h[..8].try_into().unwrap()));
    }
    if m.former_admin.is_some() {
        *agg.flags.entry("state_after_handover".into()).or_insert(0) += 1;
    }
    if m.nominee.is_some() {
        *agg.flags.entry("state_with_nominee".into()).or_insert(0) += 1;
    }
    if m.superseded.is_some() {
        *agg.flags.entry("state_with_superseded_nominee".into()).or_insert(0) += 1;
    }
    Ok(())
}

pub fn check_c08(cases: u64, seed: u64) -> RunOutput {
    drive(c08_case, cases, seed, 8, |c: &C08Case, agg: &mut Agg| check_c08_case(c, agg))
}
