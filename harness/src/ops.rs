//! Histories: `(Setup, Vec<Op>)`.  Ops carry *selectors* that the engine resolves against the live
//! simulator state (construction, not rejection), so every op is meaningful in every state and the
//! whole history shrinks as one value.  The JSON of a `Case` is the replay format.

use proptest::prelude::*;
use serde::{Deserialize, Serialize};

#[derive(Clone, Debug, PartialEq, Serialize, Deserialize)]
pub struct Setup {
    /// index into PROTOCOL_PREFIXES
    pub prefix: u8,
    /// native chain uses the same bech32 prefix as the protocol chain
    pub same_prefix: bool,
    pub oracle: bool,
    pub treasury: bool,
    /// fee rate in 1/100000
    pub fee_rate: u128,
    pub min_stake: u64,
    pub batch_period: u64,
    pub unbonding_period: u64,
    pub n_users: u8,
    pub n_monitors: u8,
    /// channel number
    pub channel: u64,
    /// the contract is resumed (running) before the ops start
    pub start_running: bool,
}

pub const PROTOCOL_PREFIXES: [&str; 3] = ["osmo", "init", "mw"];

#[derive(Clone, Debug, PartialEq, Serialize, Deserialize)]
pub enum Amt {
    /// configured minimum stake
    Min,
    MinMinus1,
    One,
    /// mantissa * 10^exp, capped at 10^27
    Sci(u16, u8),
    /// everything the caller holds of the relevant denom
    All,
    /// that fraction (n/8) of what the caller holds
    Frac(u8),
    /// smallest stake that mints exactly 1 (boundary of the zero-mint guard)
    MintsOne,
    /// one less than that (mints 0 when the rate is above 1)
    MintsZero,
    /// amount that puts the product a*L exactly on a multiple of N, plus delta (0,1,2 => -1,0,+1)
    OnBoundary(u16, u8),
}

#[derive(Clone, Debug, PartialEq, Serialize, Deserialize)]
pub enum Recip {
    /// no mint_to
    Sender,
    /// another protocol-chain user
    User(u8),
    /// a native-chain account
    Native(u8),
    /// the native-chain staker account itself (so one receiver gets transfers of both denoms)
    Staker,
    /// checksum-valid bech32 under the native (even) or protocol (odd) prefix whose data part is not whole bytes
    OddData(u8),
    /// protocol-chain contract (32-byte) address
    Contract32,
    /// malformed: damaged checksum / other prefix / garbage
    Bad(u8),
}

#[derive(Clone, Debug, PartialEq, Serialize, Deserialize)]
pub enum ExpSel {
    None,
    /// true mint amount + delta-1 (0 => below, 1 => exact, 2 => above)
    Around(u8),
}

#[derive(Clone, Debug, PartialEq, Serialize, Deserialize)]
pub enum Funds {
    Exact,
    None,
    WrongDenom,
    TwoCoins,
}

#[derive(Clone, Debug, PartialEq, Serialize, Deserialize)]
pub enum Caller {
    /// plain user i
    User(u8),
    Admin,
    /// the account that was admin before the last completed handover (or user 0 if none)
    FormerAdmin,
    Nominee,
    Monitor(u8),
    /// 32-byte contract-style account
    Contract32,
    StakerHook,
    RewardHook,
    /// the staking contract itself
    SelfContract,
}

#[derive(Clone, Debug, PartialEq, Serialize, Deserialize)]
pub enum HookWho {
    Staker,
    Collector,
    /// other native account i
    Other(u8),
    /// the staker's / the collector's native address used verbatim as a local sender (no ibc-hooks
    /// derivation): never the accepted account, also when both chains share a bech32 prefix
    StakerDirect,
    CollectorDirect,
}

#[derive(Clone, Debug, PartialEq, Serialize, Deserialize)]
pub enum DelAmt {
    Exact,
    /// expected * (8-n)/8, at least 1
    Short(u8),
    /// expected + mantissa
    Generous(u16),
    One,
}

#[derive(Clone, Debug, PartialEq, Serialize, Deserialize)]
pub enum Outcome {
    Ack,
    ErrAck,
    Timeout,
}

#[derive(Clone, Debug, PartialEq, Serialize, Deserialize)]
pub enum StrayKind {
    /// ack on another channel for a sequence the contract tracks
    OtherChannelKnown(Outcome),
    /// ack on the right channel for a sequence the contract does not track
    UnknownSeq(Outcome),
    OtherChannelUnknown(Outcome),
}

#[derive(Clone, Debug, PartialEq, Serialize, Deserialize)]
pub enum RecMode {
    Plain,
    Paginated,
    /// receiver-directed: receiver of tracked packet i (or a native account when none)
    Receiver(u8, bool),
    /// selected ids; each selector picks: even => refundable packet, 1 mod 4 => in-flight, 3 mod 4 => unknown id;
    /// `dup` repeats the first id
    Selected(Vec<u8>, bool),
}

#[derive(Clone, Debug, PartialEq, Serialize, Deserialize)]
pub enum FeeAmt {
    Zero,
    Part(u8),
    All,
    AllPlus1,
}

#[derive(Clone, Debug, PartialEq, Serialize, Deserialize)]
pub enum ResumeMode {
    /// resupply the current totals
    Same,
    /// scale staked total by n/8 (re-basing after slashing / rewards), n in 1..=24
    ScaleNative(u8),
    /// LST total := 0 with staked total kept (ownerless stake, sweep scenario)
    ZeroLst,
    /// both zero
    Zero,
    /// arbitrary triple (mantissas), kept inside the rate domain
    Raw(u32, u32, u32),
    /// one of the three totals replaced, the other two re-supplied unchanged: 0 => reward total := k,
    /// 1 => staked total + k, 2 => LST total + k (kept inside the rate domain)
    One(u8, u32),
}

#[derive(Clone, Debug, PartialEq, Serialize, Deserialize)]
pub enum CfgChange {
    Fee(u32, Option<bool>),
    FeeHuge(u8),
    MinStake(u32),
    Oracle(bool),
    Monitors(u8),
    BatchPeriod(u32),
    Unbonding(u32),
    /// all sections at once with current values
    Identity,
    /// identity changes (C09 profile only): staker / collector := native account i; channel := other or back
    Staker(u8),
    Collector(u8),
    Channel(bool),
    /// batch period (false) or unbonding period (true) near the top of u64 (C16)
    PeriodHuge(u8, bool),
    /// channel id spelled with k leading zeros (accepted by validation; a different string than the real channel)
    ChannelSpelling(u8),
    /// protocol-chain prefix of a selected length (0 = restore the chain's own; 1..=5 => 2, 10, 44, 83, 84 characters)
    ProtocolPrefix(u8),
}

#[derive(Clone, Debug, PartialEq, Serialize, Deserialize)]
pub enum OwnAct {
    Transfer(Caller),
    /// nominate a string that is not a valid address of the chain
    TransferBad(u8),
    Revoke,
    Accept,
}

#[derive(Clone, Debug, PartialEq, Serialize, Deserialize)]
pub enum TimeSel {
    Plus(u32),
    /// pending batch due time + (d-1) seconds, d in 0..=2
    PendingDue(u8),
    /// unbonding end of submitted batch i + (d-1)
    UnbondDue(u8, u8),
    /// earliest acceptance time + (d-1)
    OwnerDue(u8),
    /// far in the future (all deadlines passed)
    Far,
    /// set the sub-second part of the block time (nanoseconds; the clock only moves forward, so a
    /// smaller value lands in the next second): block times are not whole seconds on a real chain
    Phase(u32),
}

#[derive(Clone, Debug, PartialEq, Serialize, Deserialize)]
pub enum QuerySel {
    Batches { start: Option<u8>, limit: u8, status: Option<u8> },
    BatchesByIds(Vec<u8>),
    IbcQueue { start: Option<u8>, limit: u8 },
    ReplyQueue { start: Option<u8>, limit: u8 },
    Requests(u8),
    AllRequests { start: Option<u8>, limit: u8, v2: bool },
    Batch(u8),
}

#[derive(Clone, Debug, PartialEq, Serialize, Deserialize)]
pub enum Op {
    Stake { user: Caller, amt: Amt, to: Recip, flag: Option<bool>, exp: ExpSel, funds: Funds, fail: Option<u8> },
    Unstake { user: Caller, amt: Amt, funds: Funds },
    /// align: 0 none, 1 => first move the clock to due-1, 2 => to due, 3 => to due+1
    SubmitBatch {
        user: Caller,
        #[serde(default)]
        align: u8,
    },
    Withdraw { user: Caller, batch: u8 },
    DeliverUnstaked {
        batch: u8,
        amt: DelAmt,
        who: HookWho,
        other_channel: bool,
        wrong_denom: bool,
        #[serde(default)]
        align: u8,
    },
    DeliverRewards { amt: Amt, who: HookWho, other_channel: bool, wrong_denom: bool, fail: bool },
    Resolve { pkt: u8, outcome: Outcome },
    Stray { kind: StrayKind, sel: u8 },
    Recover { user: Caller, mode: RecMode, fail: bool },
    FeeWithdraw { user: Caller, amt: FeeAmt },
    CircuitBreaker { user: Caller },
    Resume { user: Caller, mode: ResumeMode },
    UpdateConfig { user: Caller, change: CfgChange },
    Validator { user: Caller, add: bool, sel: u8 },
    Ownership { user: Caller, act: OwnAct },
    Advance(TimeSel),
    /// n small stakes whose staker packets all fail (error ack / timeout alternating): many refundable
    /// packets at once, so that paginated recovery (page size 10) has something to paginate
    Burst(u8),
    /// n rounds of (unstake a little, submit the batch at its deadline): many batches in one history
    Churn(u8),
    /// an outage: the breaker is tripped (by the admin, or monitor k-1), the listed IBC outcomes arrive while the
    /// contract is halted, a few value-moving calls are attempted (they must fail), and the admin resumes with
    /// unchanged totals
    Outage { by: u8, events: Vec<(u8, Outcome)>, attempts: u8 },
    Traffic(u8),
    OracleToggle,
    Query(QuerySel),
}

impl Op {
    pub fn kind(&self) -> &'static str {
        match self {
            Op::Stake { .. } => "Stake",
            Op::Unstake { .. } => "Unstake",
            Op::SubmitBatch { .. } => "SubmitBatch",
            Op::Withdraw { .. } => "Withdraw",
            Op::DeliverUnstaked { .. } => "DeliverUnstaked",
            Op::DeliverRewards { .. } => "DeliverRewards",
            Op::Resolve { .. } => "Resolve",
            Op::Stray { .. } => "Stray",
            Op::Recover { .. } => "Recover",
            Op::FeeWithdraw { .. } => "FeeWithdraw",
            Op::CircuitBreaker { .. } => "CircuitBreaker",
            Op::Resume { .. } => "Resume",
            Op::UpdateConfig { .. } => "UpdateConfig",
            Op::Validator { .. } => "Validator",
            Op::Ownership { .. } => "Ownership",
            Op::Advance(_) => "Advance",
            Op::Burst(_) => "Burst",
            Op::Churn(_) => "Churn",
            Op::Outage { .. } => "Outage",
            Op::Traffic(_) => "Traffic",
            Op::OracleToggle => "OracleToggle",
            Op::Query(_) => "Query",
        }
    }
}

#[derive(Clone, Debug, PartialEq, Serialize, Deserialize)]
pub struct Case {
    pub setup: Setup,
    pub ops: Vec<Op>,
}

// ------------------------------------------------------------------ profiles

/// Weights of op kinds and domain switches for one property's generator.
#[derive(Clone, Debug)]
pub struct Profile {
    pub name: &'static str,
    pub len: (usize, usize),
    pub w_stake: u32,
    pub w_unstake: u32,
    pub w_submit: u32,
    pub w_withdraw: u32,
    pub w_deliver: u32,
    pub w_rewards: u32,
    pub w_resolve: u32,
    pub w_stray: u32,
    pub w_recover: u32,
    pub w_feewd: u32,
    pub w_breaker: u32,
    pub w_resume: u32,
    pub w_config: u32,
    pub w_validator: u32,
    pub w_owner: u32,
    pub w_advance: u32,
    pub w_traffic: u32,
    pub w_burst: u32,
    pub w_churn: u32,
    pub w_outage: u32,
    pub w_oracle_toggle: u32,
    pub w_query: u32,
    /// probability weights inside ops
    pub hostile_callers: bool,
    /// allow Resume::ZeroLst (sweep scenario)
    pub sweep: bool,
    /// allow fee rates beyond 100000 and huge
    pub huge_fees: bool,
    /// short periods so that many batches live per history
    pub short_periods: bool,
    /// admin-forced recovery lists may contain in-flight ids (C07/C08 only)
    pub forced_inflight: bool,
    pub fail_injection: bool,
    /// UpdateConfig may change staker, collector and channel (C09)
    pub identity_changes: bool,
    /// periods near u64::MAX in setups and updates (C16)
    pub extreme_periods: bool,
}

impl Profile {
    pub fn base(name: &'static str) -> Profile {
        Profile {
            name,
            len: (20, 70),
            w_stake: 14,
            w_unstake: 9,
            w_submit: 7,
            w_withdraw: 8,
            w_deliver: 8,
            w_rewards: 7,
            w_resolve: 14,
            w_stray: 2,
            w_recover: 7,
            w_feewd: 3,
            w_breaker: 0,
            w_resume: 2,
            w_config: 3,
            w_validator: 1,
            w_owner: 1,
            w_advance: 12,
            w_traffic: 2,
            w_burst: 0,
            w_churn: 0,
            w_outage: 1,
            w_oracle_toggle: 0,
            w_query: 1,
            hostile_callers: false,
            sweep: false,
            huge_fees: false,
            short_periods: true,
            forced_inflight: false,
            fail_injection: true,
            identity_changes: false,
            extreme_periods: false,
        }
    }
}

fn caller(p: &Profile) -> BoxedStrategy<Caller> {
    if p.hostile_callers {
        prop_oneof![
            6 => (0u8..8).prop_map(Caller::User),
            3 => Just(Caller::Admin),
            1 => Just(Caller::FormerAdmin),
            1 => Just(Caller::Nominee),
            1 => (0u8..3).prop_map(Caller::Monitor),
            1 => Just(Caller::Contract32),
            1 => Just(Caller::StakerHook),
            1 => Just(Caller::RewardHook),
            1 => Just(Caller::SelfContract),
        ]
        .boxed()
    } else {
        // mostly plain users; now and then a 32-byte (contract-style) account, which must name a recipient
        prop_oneof![12 => (0u8..8).prop_map(Caller::User), 1 => Just(Caller::Contract32)].boxed()
    }
}

fn privileged(p: &Profile) -> BoxedStrategy<Caller> {
    if p.hostile_callers {
        caller(p)
    } else {
        prop_oneof![8 => Just(Caller::Admin), 1 => (0u8..8).prop_map(Caller::User), 1 => (0u8..3).prop_map(Caller::Monitor)]
            .boxed()
    }
}

fn amt() -> BoxedStrategy<Amt> {
    prop_oneof![
        2 => Just(Amt::Min),
        1 => Just(Amt::MinMinus1),
        1 => Just(Amt::One),
        8 => (1u16..10000, 0u8..24).prop_map(|(m, e)| Amt::Sci(m, e)),
        2 => Just(Amt::All),
        4 => (1u8..8).prop_map(Amt::Frac),
        1 => Just(Amt::MintsOne),
        1 => Just(Amt::MintsZero),
        3 => (1u16..2000, 0u8..3).prop_map(|(k, d)| Amt::OnBoundary(k, d)),
    ]
    .boxed()
}

fn outcome() -> BoxedStrategy<Outcome> {
    prop_oneof![5 => Just(Outcome::Ack), 3 => Just(Outcome::ErrAck), 3 => Just(Outcome::Timeout)].boxed()
}

fn funds() -> BoxedStrategy<Funds> {
    prop_oneof![30 => Just(Funds::Exact), 1 => Just(Funds::None), 1 => Just(Funds::WrongDenom), 1 => Just(Funds::TwoCoins)]
        .boxed()
}

fn time_sel(p: &Profile) -> BoxedStrategy<TimeSel> {
    let w_owner = if p.name == "C12" { 12 } else { 1 };
    prop_oneof![
        3 => (0u32..5000).prop_map(TimeSel::Plus),
        5 => (0u8..3).prop_map(TimeSel::PendingDue),
        5 => (0u8..8, 0u8..3).prop_map(|(b, d)| TimeSel::UnbondDue(b, d)),
        w_owner => (0u8..3).prop_map(TimeSel::OwnerDue),
        1 => Just(TimeSel::Far),
        w_owner.min(4) => prop_oneof![Just(1u32), Just(999_999_999u32), 0u32..1_000_000_000].prop_map(TimeSel::Phase),
    ]
    .boxed()
}

pub fn query_sel() -> BoxedStrategy<QuerySel> {
    let start = || proptest::option::weighted(0.6, 0u8..40);
    prop_oneof![
        4 => (start(), 1u8..12, proptest::option::weighted(0.6, 0u8..3))
            .prop_map(|(start, limit, status)| QuerySel::Batches { start, limit, status }),
        2 => proptest::collection::vec(0u8..40, 0..8).prop_map(QuerySel::BatchesByIds),
        3 => (start(), 1u8..12).prop_map(|(start, limit)| QuerySel::IbcQueue { start, limit }),
        1 => (start(), 1u8..12).prop_map(|(start, limit)| QuerySel::ReplyQueue { start, limit }),
        2 => (0u8..10).prop_map(QuerySel::Requests),
        1 => (start(), 1u8..12, any::<bool>()).prop_map(|(start, limit, v2)| QuerySel::AllRequests { start, limit, v2 }),
        1 => (0u8..40).prop_map(QuerySel::Batch),
    ]
    .boxed()
}

pub fn op_strategy(p: &Profile) -> BoxedStrategy<Op> {
    let fail_opt = if p.fail_injection {
        prop_oneof![20 => Just(None), 1 => (0u8..2).prop_map(Some)].boxed()
    } else {
        Just(None).boxed()
    };
    let fail_b = if p.fail_injection { proptest::bool::weighted(0.05).boxed() } else { Just(false).boxed() };
    let recip = prop_oneof![
        6 => Just(Recip::Sender),
        3 => (0u8..8).prop_map(Recip::User),
        5 => (0u8..4).prop_map(Recip::Native),
        1 => Just(Recip::Staker),
        1 => (0u8..8).prop_map(Recip::OddData),
        1 => Just(Recip::Contract32),
        1 => (0u8..6).prop_map(Recip::Bad),
    ];
    let exp = prop_oneof![3 => Just(ExpSel::None), 2 => (0u8..3).prop_map(ExpSel::Around)];
    let stake = (caller(p), amt(), recip, proptest::option::of(any::<bool>()), exp, funds(), fail_opt)
        .prop_map(|(user, amt, to, flag, exp, funds, fail)| Op::Stake { user, amt, to, flag, exp, funds, fail });
    let unstake = (caller(p), amt(), funds()).prop_map(|(user, amt, funds)| Op::Unstake { user, amt, funds });
    let align = || prop_oneof![3 => Just(0u8), 2 => Just(1u8), 4 => Just(2u8), 2 => Just(3u8)];
    let submit = (caller(p), align()).prop_map(|(user, align)| Op::SubmitBatch { user, align });
    let withdraw = (caller(p), 0u8..12).prop_map(|(user, batch)| Op::Withdraw { user, batch });
    let who = || prop_oneof![12 => Just(HookWho::Staker), 2 => Just(HookWho::Collector), 1 => (0u8..3).prop_map(HookWho::Other), 1 => Just(HookWho::StakerDirect)];
    let who_r = || prop_oneof![2 => Just(HookWho::Staker), 12 => Just(HookWho::Collector), 1 => (0u8..3).prop_map(HookWho::Other), 1 => Just(HookWho::CollectorDirect)];
    let delamt = prop_oneof![
        6 => Just(DelAmt::Exact),
        2 => (1u8..8).prop_map(DelAmt::Short),
        2 => (1u16..5000).prop_map(DelAmt::Generous),
        1 => Just(DelAmt::One),
    ];
    let deliver = (0u8..12, delamt, who(), proptest::bool::weighted(0.05), proptest::bool::weighted(0.05), align()).prop_map(
        |(batch, amt, who, other_channel, wrong_denom, align)| Op::DeliverUnstaked { batch, amt, who, other_channel, wrong_denom, align },
    );
    let rewards = (amt(), who_r(), proptest::bool::weighted(0.05), proptest::bool::weighted(0.05), fail_b.clone()).prop_map(
        |(amt, who, other_channel, wrong_denom, fail)| Op::DeliverRewards { amt, who, other_channel, wrong_denom, fail },
    );
    let resolve = (0u8..16, outcome()).prop_map(|(pkt, outcome)| Op::Resolve { pkt, outcome });
    let stray = (
        prop_oneof![
            outcome().prop_map(StrayKind::OtherChannelKnown),
            outcome().prop_map(StrayKind::UnknownSeq),
            outcome().prop_map(StrayKind::OtherChannelUnknown)
        ],
        0u8..16,
    )
        .prop_map(|(kind, sel)| Op::Stray { kind, sel });
    let recmode = prop_oneof![
        5 => Just(RecMode::Plain),
        3 => Just(RecMode::Paginated),
        3 => (0u8..16, any::<bool>()).prop_map(|(i, p)| RecMode::Receiver(i, p)),
        3 => (proptest::collection::vec(0u8..32, 1..5), proptest::bool::weighted(0.3)).prop_map(|(v, d)| RecMode::Selected(v, d)),
    ];
    let rec_caller = if p.hostile_callers {
        caller(p)
    } else {
        prop_oneof![3 => (0u8..8).prop_map(Caller::User), 2 => Just(Caller::Admin)].boxed()
    };
    let recover = (rec_caller, recmode, fail_b).prop_map(|(user, mode, fail)| Op::Recover { user, mode, fail });
    let feeamt = prop_oneof![
        1 => Just(FeeAmt::Zero),
        3 => (1u8..8).prop_map(FeeAmt::Part),
        3 => Just(FeeAmt::All),
        2 => Just(FeeAmt::AllPlus1)
    ];
    let feewd = (privileged(p), feeamt).prop_map(|(user, amt)| Op::FeeWithdraw { user, amt });
    let breaker = privileged(p).prop_map(|user| Op::CircuitBreaker { user });
    let sweep = p.sweep;
    let resmode = prop_oneof![
        4 => Just(ResumeMode::Same),
        4 => (1u8..=24).prop_map(ResumeMode::ScaleNative),
        1 => Just(ResumeMode::Zero),
        2 => (1u32..100000, 1u32..100000, 0u32..100000).prop_map(|(a, b, c)| ResumeMode::Raw(a, b, c)),
        2 => Just(if sweep { ResumeMode::ZeroLst } else { ResumeMode::Same }),
        3 => (0u8..3, prop_oneof![Just(0u32), Just(1u32), 0u32..1_000_000]).prop_map(|(w, k)| ResumeMode::One(w, k)),
    ];
    let resume = (privileged(p), resmode).prop_map(|(user, mode)| Op::Resume { user, mode });
    let huge = p.huge_fees;
    let change = prop_oneof![
        4 => (prop_oneof![Just(0u32), Just(1), Just(99_999), Just(100_000), 0u32..100_000, 0u32..20_000],
              proptest::option::of(any::<bool>())).prop_map(|(f, t)| CfgChange::Fee(f, t)),
        1 => (0u8..6).prop_map(move |k| if huge { CfgChange::FeeHuge(k) } else { CfgChange::Fee(100_000, None) }),
        2 => (0u32..100000).prop_map(CfgChange::MinStake),
        2 => any::<bool>().prop_map(CfgChange::Oracle),
        1 => (0u8..4).prop_map(CfgChange::Monitors),
        2 => (0u32..4000).prop_map(CfgChange::BatchPeriod),
        2 => (0u32..4000).prop_map(CfgChange::Unbonding),
        1 => Just(CfgChange::Identity),
        3 => prop_oneof![3 => (0u8..6).prop_map(CfgChange::Staker), 3 => (0u8..6).prop_map(CfgChange::Collector), 3 => any::<bool>().prop_map(CfgChange::Channel), 2 => (1u8..4).prop_map(CfgChange::ChannelSpelling), 3 => (0u8..9).prop_map(CfgChange::ProtocolPrefix)],
    ];
    let ident = p.identity_changes;
    let extreme = p.extreme_periods;
    let change = prop_oneof![20 => change, 1 => (0u8..4, any::<bool>()).prop_map(move |(k, w)| if extreme { CfgChange::PeriodHuge(k, w) } else { CfgChange::Identity })];
    let change = change.prop_map(move |c| match c {
        CfgChange::Staker(_) | CfgChange::Collector(_) | CfgChange::Channel(_) | CfgChange::ChannelSpelling(_) | CfgChange::ProtocolPrefix(_) if !ident => CfgChange::Identity,
        c => c,
    });
    let config = (privileged(p), change).prop_map(|(user, change)| Op::UpdateConfig { user, change });
    let validator = (privileged(p), any::<bool>(), 0u8..6).prop_map(|(user, add, sel)| Op::Validator { user, add, sel });
    let any_caller = || {
        prop_oneof![
            3 => (0u8..8).prop_map(Caller::User),
            3 => Just(Caller::Admin),
            1 => Just(Caller::FormerAdmin),
            3 => Just(Caller::Nominee),
            1 => (0u8..3).prop_map(Caller::Monitor),
        ]
    };
    let ownact = prop_oneof![
        4 => any_caller().prop_map(OwnAct::Transfer),
        1 => (0u8..4).prop_map(OwnAct::TransferBad),
        2 => Just(OwnAct::Revoke),
        5 => Just(OwnAct::Accept),
    ];
    let owner = (any_caller(), ownact).prop_map(|(user, act)| Op::Ownership { user, act });
    let advance = time_sel(p).prop_map(Op::Advance);
    let traffic = (1u8..5).prop_map(Op::Traffic);
    let query = query_sel().prop_map(Op::Query);
    let all: Vec<(u32, BoxedStrategy<Op>)> = vec![
        (p.w_stake, stake.boxed()),
        (p.w_unstake, unstake.boxed()),
        (p.w_submit, submit.boxed()),
        (p.w_withdraw, withdraw.boxed()),
        (p.w_deliver, deliver.boxed()),
        (p.w_rewards, rewards.boxed()),
        (p.w_resolve, resolve.boxed()),
        (p.w_stray, stray.boxed()),
        (p.w_recover, recover.boxed()),
        (p.w_feewd, feewd.boxed()),
        (p.w_breaker, breaker.boxed()),
        (p.w_resume, resume.boxed()),
        (p.w_config, config.boxed()),
        (p.w_validator, validator.boxed()),
        (p.w_owner, owner.boxed()),
        (p.w_advance, advance.boxed()),
        (p.w_traffic, traffic.boxed()),
        (p.w_burst, (4u8..16).prop_map(Op::Burst).boxed()),
        (p.w_churn, (8u8..40).prop_map(Op::Churn).boxed()),
        (p.w_outage, (0u8..3, proptest::collection::vec((0u8..16, outcome()), 0..5), 0u8..7).prop_map(|(by, events, attempts)| Op::Outage { by, events, attempts }).boxed()),
        (p.w_oracle_toggle, Just(Op::OracleToggle).boxed()),
        (p.w_query, query.boxed()),
    ];
    proptest::strategy::Union::new_weighted(all.into_iter().filter(|(w, _)| *w > 0).collect()).boxed()
}

pub fn setup_strategy(p: &Profile) -> BoxedStrategy<Setup> {
    let periods = if p.extreme_periods {
        let big = || prop_oneof![30 => 0u64..3000, 1 => Just(u64::MAX), 1 => Just(u64::MAX - 1_700_000_000), 1 => Just(u64::MAX - 1_700_000_001), 1 => Just(u64::MAX / 2)];
        (big(), big()).boxed()
    } else if p.short_periods {
        (prop_oneof![Just(0u64), 1u64..50, 50u64..2000], prop_oneof![Just(0u64), 1u64..50, 50u64..3000]).boxed()
    } else {
        (Just(86400u64), Just(1209600u64)).boxed()
    };
    let fee = prop_oneof![Just(0u128), Just(1u128), Just(10_000u128), Just(99_999u128), Just(100_000u128), 0u128..100_000u128];
    (
        (0u8..3, proptest::bool::weighted(0.25), any::<bool>(), any::<bool>(), fee),
        (prop_oneof![Just(0u64), Just(1), Just(100), 1u64..100_000], periods, 2u8..=6, 0u8..=2, prop_oneof![Just(0u64), 1u64..1000, Just(u64::MAX)]),
    )
        .prop_map(|((prefix, same_prefix, oracle, treasury, fee_rate), (min_stake, (batch_period, unbonding_period), n_users, n_monitors, channel))| Setup {
            prefix,
            same_prefix,
            oracle,
            treasury,
            fee_rate,
            min_stake,
            batch_period,
            unbonding_period,
            n_users,
            n_monitors,
            channel,
            start_running: true,
        })
        .boxed()
}

pub fn case_strategy(p: &Profile) -> BoxedStrategy<Case> {
    let (lo, hi) = p.len;
    (setup_strategy(p), proptest::collection::vec(op_strategy(p), lo..hi))
        .prop_map(|(setup, ops)| Case { setup, ops })
        .boxed()
}
