//! C10: circuit breaker.  After a generated history the breaker is tripped (admin or monitor);
//! each probe op is executed on a *resumed* copy (does it succeed when running?) and the very same
//! transaction is re-submitted on the *halted* copy, where it must fail and change nothing.

use crate::crypto::sha256;
use crate::engine::Engine;
use crate::ops::*;
use crate::runner::*;
use cosmwasm_std::Uint128;
use proptest::prelude::*;
use serde::{Deserialize, Serialize};
use staking::msg::{ConfigResponse, ExecuteMsg, QueryMsg};

#[derive(Clone, Debug, Serialize, Deserialize)]
pub struct C10Case {
    pub case: Case,
    /// 0 = admin trips the breaker, 1.. = monitor i; 255 = keep the fresh (never resumed) contract
    pub tripped_by: u8,
    pub probes: Vec<Op>,
}

fn probe_profile() -> Profile {
    let mut p = Profile::base("C10-probe");
    p.w_stake = 10;
    p.w_unstake = 10;
    p.w_submit = 10;
    p.w_withdraw = 10;
    p.w_deliver = 10;
    p.w_rewards = 10;
    for w in [
        &mut p.w_resolve, &mut p.w_stray, &mut p.w_recover, &mut p.w_feewd, &mut p.w_breaker, &mut p.w_resume, &mut p.w_config,
        &mut p.w_validator, &mut p.w_owner, &mut p.w_advance, &mut p.w_traffic, &mut p.w_oracle_toggle, &mut p.w_query, &mut p.w_outage,
    ] {
        *w = 0;
    }
    p.fail_injection = false;
    p
}

pub fn history_profile() -> Profile {
    let mut p = Profile::base("C10");
    p.len = (10, 45);
    p.w_breaker = 2;
    p.w_resume = 4;
    p.w_config = 2;
    p.w_stray = 0;
    p.sweep = true;
    p
}

pub fn c10_case() -> BoxedStrategy<C10Case> {
    let mut s = setup_strategy(&history_profile());
    s = s.prop_map(|mut s| {
        s.n_monitors = s.n_monitors.max(1);
        s
    })
    .boxed();
    (
        s,
        proptest::collection::vec(op_strategy(&history_profile()), 0..45),
        prop_oneof![3 => Just(0u8), 3 => 1u8..3, 1 => Just(255u8)],
        proptest::collection::vec(op_strategy(&probe_profile()), 6..14),
    )
        .prop_map(|(mut setup, ops, tripped_by, probes)| {
            if tripped_by == 255 {
                setup.start_running = false;
            }
            C10Case { case: Case { setup, ops: if tripped_by == 255 { vec![] } else { ops } }, tripped_by, probes }
        })
        .boxed()
}

fn msg_kind(m: &ExecuteMsg) -> String {
    format!("{:?}", m).split(|c: char| c == ' ' || c == '{').next().unwrap_or("?").to_string()
}

pub fn check_c10_case(c: &C10Case, agg: &mut Agg) -> Result<(), String> {
    let mut e = match Engine::try_new(&c.case.setup)? {
        Some(e) => e,
        None => return Ok(()),
    };
    let own = |e: &Engine| e.viol.as_ref().filter(|v| v.tags.contains(&"C10")).map(|v| format!("step {}: {}", v.step, v.msg));
    for op in &c.case.ops {
        if e.viol.is_some() {
            break;
        }
        e.run_op(op);
    }
    if let Some(m) = own(&e) {
        return Err(m);
    }
    if e.viol.is_some() {
        agg.foreign_divergences += 1;
        return Ok(());
    }
    // ---- trip the breaker (unless the fresh contract is probed, which must already be halted)
    if c.tripped_by == 255 {
        let cfg: ConfigResponse = e.ch.query(QueryMsg::Config {})?;
        if !cfg.stopped {
            return Err("a newly instantiated contract is not halted".into());
        }
    } else if !e.m.halted {
        let who = if c.tripped_by == 0 || e.m.cfg.monitors.is_empty() { Caller::Admin } else { Caller::Monitor((c.tripped_by - 1) % e.m.cfg.monitors.len() as u8) };
        e.run_op(&Op::CircuitBreaker { user: who });
        if let Some(m) = own(&e) {
            return Err(m);
        }
        if !e.m.halted {
            return Ok(());
        }
    }
    // ---- resume exactness from this state and from the ownerless-stake state (LST total 0, staked total > 0):
    // two resumes in a row, the engine compares the raw state and config records around each
    {
        let mut z = e.clone();
        let k = c.probes.len() as u32;
        for mode in [ResumeMode::One(0, 7 + k), ResumeMode::One(1 + (k % 2) as u8, 1 + k), ResumeMode::ZeroLst, ResumeMode::Raw(3 + k, 2 + k % 3, k), ResumeMode::Zero, ResumeMode::One(0, k), ResumeMode::Same] {
            z.run_op(&Op::Resume { user: Caller::Admin, mode });
            if let Some(m) = own(&z) {
                return Err(format!("resume sequence after the history: {m}"));
            }
            if z.viol.is_some() {
                break;
            }
        }
        *agg.counters.entry("resume_sequences".into()).or_insert(0) += 1;
    }
    let mut successes = 0;
    let mut trace = String::new();
    for (i, op) in c.probes.iter().enumerate() {
        // copy R: resumed with the same totals; the engine constructs a transaction that should work
        let mut r = e.clone();
        let admin = r.m.admin.clone();
        let out = r.ch.execute(
            &admin,
            &[],
            ExecuteMsg::ResumeContract {
                total_native_token: Uint128::new(r.m.n),
                total_liquid_stake_token: Uint128::new(r.m.l),
                total_reward_amount: Uint128::new(r.m.rewards),
            },
        );
        if !out.ok {
            if r.oracle_blocks() {
                continue;
            }
            return Err(format!("probe {i}: admin resume with unchanged totals failed: {:?}", out.err));
        }
        r.m.halted = false;
        r.ch.last_tx = None;
        let ok_before = r.stats.counters.iter().filter(|(k, _)| k.ends_with(".ok")).map(|(_, v)| *v).sum::<u64>();
        r.run_op(op);
        if let Some(m) = own(&r) {
            return Err(format!("probe {i} on the resumed copy: {m}"));
        }
        let ok_after = r.stats.counters.iter().filter(|(k, _)| k.ends_with(".ok")).map(|(_, v)| *v).sum::<u64>();
        let tx = match r.ch.last_tx.clone() {
            Some(t) => t,
            None => continue,
        };
        let ran_ok = ok_after > ok_before && r.viol.is_none();
        // copy H: still halted; re-submit the identical transaction at the identical time
        let mut h = e.clone();
        h.ch.time_ns = tx.time_ns.max(h.ch.time_ns);
        let world_before;
        let outcome = match &tx.hook {
            Some((channel, native_sender, denom, amount)) => {
                world_before = h.ch.w.clone();
                h.ch.hooks_execute(channel, native_sender, denom, *amount, tx.msg.clone()).1
            }
            None => {
                for c in &tx.funds {
                    // the payer owns the funds on both copies (staked asset comes from the faucet)
                    if h.ch.balance(&tx.sender, &c.denom) < c.amount.u128() {
                        h.ch.faucet(&tx.sender, &c.denom, c.amount.u128());
                    }
                }
                world_before = h.ch.w.clone();
                h.ch.execute(&tx.sender, &tx.funds, tx.msg.clone())
            }
        };
        let what = format!("probe {i}: {:?} by {} funds {:?} (succeeds when running: {ran_ok})", tx.msg, tx.sender, tx.funds);
        trace.push_str(&what);
        if let Some(p) = &outcome.panic {
            return Err(format!("{what}: panicked while halted: {} at {}", p.message, p.location));
        }
        if outcome.ok {
            return Err(format!("{what}: succeeded while the contract is halted"));
        }
        if h.ch.w != world_before {
            return Err(format!("{what}: failed while halted but state or ledgers changed"));
        }
        if ran_ok {
            successes += 1;
            *agg.counters.entry(format!("halted_probe_nontrivial.{}", msg_kind(&tx.msg))).or_insert(0) += 1;
        } else {
            *agg.counters.entry(format!("halted_probe_trivial.{}", msg_kind(&tx.msg))).or_insert(0) += 1;
        }
    }
    agg.evaluations += 1;
    agg.steps += e.stats.steps as u64;
    if c.tripped_by == 255 {
        *agg.flags.entry("fresh_contract".into()).or_insert(0) += 1;
    } else if c.tripped_by == 0 {
        *agg.flags.entry("tripped_by_admin".into()).or_insert(0) += 1;
    } else {
        *agg.flags.entry("tripped_by_monitor".into()).or_insert(0) += 1;
    }
    if successes > 0 {
        let hsh = sha256(format!("{}{}", e.stats.trace_hash, trace).as_bytes());
        agg.nontrivial.insert(u64::from_le_bytes(hsh[..8].try_into().unwrap()));
    }
    Ok(())
}

pub fn check_c10(cases: u64, seed: u64) -> RunOutput {
    drive(c10_case, cases, seed, 10, |c: &C10Case, agg: &mut Agg| check_c10_case(c, agg))
}
