//! Invariants compared after every step, and the in-history query ops.

use crate::engine::*;
use crate::model::*;
use crate::ops::QuerySel;
use crate::sim::PacketState;
use crate::u256::ratio_18;
use crate::world::*;
use cosmwasm_std::Addr;
use milky_way::staking::BatchStatus;
use staking::msg::{BatchResponse, BatchesResponse, ConfigResponse, IBCQueueResponse, IBCReplyQueueResponse, QueryMsg, StateResponse};
use staking::state::ibc::PacketLifecycleStatus;
use staking::state::UnstakeRequest;

/// A page shorter than asked for, with more matching items behind it, is accepted only if it is at least this
/// long (a contract may cap page sizes); a page that merely stops early is a violation of C17.
pub const PAGE_CAP_MIN: usize = 10;

fn status_of(p: &PacketLifecycleStatus) -> Option<PStatus> {
    match p {
        PacketLifecycleStatus::Sent => Some(PStatus::Sent),
        PacketLifecycleStatus::AckFailure => Some(PStatus::AckFailure),
        PacketLifecycleStatus::TimedOut => Some(PStatus::TimedOut),
        PacketLifecycleStatus::AckSuccess => None,
    }
}

impl Engine {
    /// The whole packet table, fetched page by page with an explicit limit (so that a default or maximum
    /// page size introduced by a refactor does not matter to the properties that merely *read* the table).
    pub fn query_ibc_queue(&self) -> Vec<(u64, String, String, u128, Option<PStatus>)> {
        let mut out = vec![];
        let mut cursor: Option<u64> = None;
        for _ in 0..10_000 {
            match self.ch.query::<IBCQueueResponse>(QueryMsg::IbcQueue { start_after: cursor, limit: Some(50) }) {
                Ok(q) if !q.ibc_queue.is_empty() => {
                    let next = q.ibc_queue.last().map(|p| p.sequence);
                    if cursor.is_some() && next <= cursor {
                        // the cursor does not advance (a broken pager): stop, the comparison below reports it
                        out.extend(q.ibc_queue.iter().map(|p| (p.sequence, p.receiver.clone(), p.amount.denom.clone(), p.amount.amount.u128(), status_of(&p.status))));
                        break;
                    }
                    cursor = next;
                    out.extend(q.ibc_queue.iter().map(|p| (p.sequence, p.receiver.clone(), p.amount.denom.clone(), p.amount.amount.u128(), status_of(&p.status))));
                }
                _ => break,
            }
        }
        out
    }

    /// All batches, page by page (see `query_ibc_queue`).
    pub fn query_all_batches(&self) -> Result<Vec<BatchResponse>, String> {
        let mut out: Vec<BatchResponse> = vec![];
        let mut cursor: Option<u64> = None;
        for _ in 0..10_000 {
            let page: BatchesResponse = self.ch.query(QueryMsg::Batches { start_after: cursor, limit: Some(50), status: None })?;
            if page.batches.is_empty() {
                break;
            }
            let next = page.batches.last().map(|b| b.id);
            let stuck = cursor.is_some() && next <= cursor;
            cursor = next;
            out.extend(page.batches);
            if stuck {
                break;
            }
        }
        Ok(out)
    }

    fn batch_matches(b: &MBatch, r: &BatchResponse) -> bool {
        r.id == b.id
            && r.batch_total_liquid_stake.u128() == b.total
            && r.expected_native_unstaked.u128() == b.expected.unwrap_or(0)
            && r.received_native_unstaked.u128() == b.received.unwrap_or(0)
            // the stored counter is never decremented today; a counter of open requests would satisfy C05 as well
            && (r.unstake_request_count == b.reqs.len() as u64 + b.withdrawn_count() || r.unstake_request_count == b.reqs.len() as u64)
            // no property speaks about the action time of a batch that has been received
            // (nor about the reported time of a submitted batch beyond "no earlier than one unbonding period": a
            // deadline rounded up to the next whole second is as good)
            && (b.status == BStatus::Received
                || r.next_batch_action_time.seconds() == b.due.unwrap_or(0)
                || (b.status == BStatus::Submitted && Some(r.next_batch_action_time.seconds()) == b.due.map(|d| d.saturating_add(1))))
            && r.status == b.status.as_str()
    }

    pub fn invariants(&mut self) {
        if self.viol.is_some() {
            return;
        }
        // ---- State
        let st: StateResponse = match self.ch.query(QueryMsg::State {}) {
            Ok(s) => s,
            Err(e) => {
                let in_domain = !(self.m.l > 0 && self.m.n == 0);
                if in_domain {
                    self.chk(&["C16", "C01"], false, || format!("State query failed: {e}"));
                }
                return;
            }
        };
        let (n, l) = (self.m.n, self.m.l);
        let mut t_n: Vec<&'static str> = vec!["C01"];
        t_n.extend(self.ctx_tags.iter());
        let mut t_l: Vec<&'static str> = vec!["C03"];
        t_l.extend(self.ctx_tags.iter());
        let mut t_f: Vec<&'static str> = vec!["C11"];
        t_f.extend(self.ctx_tags.iter());
        self.chk(&t_n, st.total_native_token.u128() == n, || {
            format!("State.total_native_token={} but forwarded-minus-set-aside model says {n}", st.total_native_token)
        });
        self.chk(&t_l, st.total_liquid_stake_token.u128() == l, || format!("State.total_liquid_stake_token={} model {l}", st.total_liquid_stake_token));
        let (rw, fees) = (self.m.rewards, self.m.fees);
        self.chk(&t_f, st.total_reward_amount.u128() == rw && st.total_fees.u128() == fees, || {
            format!("State rewards/fees = {}/{} model {rw}/{fees}", st.total_reward_amount, st.total_fees)
        });
        let nominee = self.m.nominee.clone().unwrap_or_default();
        self.chk(&["C08", "C12"], st.pending_owner == nominee, || format!("State.pending_owner={} model {nominee}", st.pending_owner));
        let want_rate = if l == 0 { Some(0) } else if n == 0 { None } else { ratio_18(l, n) };
        if let Some(w) = want_rate {
            self.chk(&["C15"], st.rate.atomics().u128() == w, || format!("State.rate={} but purchase rate L/N of N={n} L={l} is {w}e-18", st.rate));
        }
        // ---- C01: accounting identity and ledger closure (all operands from ledger observations)
        let ident = self.m.forwarded as i128 - self.m.set_aside as i128 - self.m.swept as i128 + self.m.rebase;
        let (f0, e0, s0, r0) = (self.m.forwarded, self.m.set_aside, self.m.swept, self.m.rebase);
        self.chk(&["C01"], ident == n as i128, || format!("total {n} != forwarded {f0} - set aside {e0} - swept {s0} + rebase {r0}"));
        if self.identity_changed {
            return self.invariants_tail();
        }
        let staker = self.m.cfg.staker.clone();
        let mut delivered = 0u128;
        let mut inflight = 0u128;
        for p in self.ch.w.packets.values() {
            if p.receiver == staker && p.denom == STAKED_DENOM {
                match p.state {
                    PacketState::Delivered => delivered += p.amount,
                    PacketState::InFlight => inflight += p.amount,
                    _ => {}
                }
            }
        }
        let awaiting: u128 = self.m.refundable().filter(|p| p.receiver == staker && p.denom == STAKED_DENOM).map(|p| p.amount).sum();
        let fwd = self.m.forwarded;
        self.chk(&["C01", "C07"], fwd == delivered + inflight + awaiting, || {
            format!("forwarded {fwd} != delivered {delivered} + in flight {inflight} + refunded awaiting re-send {awaiting}")
        });
        let held = self.ch.native_balance(&staker, NATIVE_DENOM) as i128 - self.m.paid_back_expected as i128;
        let owes = n as i128 + self.m.outstanding_expected() as i128 + self.m.swept as i128 - self.m.rebase;
        self.chk(&["C01"], held + inflight as i128 + awaiting as i128 == owes && held == self.staker_ledger, || {
            format!("staker side holds {held} (+{inflight} in flight, +{awaiting} awaiting) but must back total + outstanding batches = {owes}")
        });
        self.invariants_tail();
    }

    fn invariants_tail(&mut self) {
        let (n, l) = (self.m.n, self.m.l);
        let _ = n;
        // ---- C02: solvency of the contract's staked-asset balance
        let contract = self.a.contract.clone();
        let bal = self.ch.balance(&contract, STAKED_DENOM);
        if !self.m.fees_unbacked {
            let owed = self.m.received_unpaid() + self.m.fees + self.m.refundable_sum(STAKED_DENOM);
            // the same identity with the fee balance the contract itself reports
            let reported = self.ch.query::<StateResponse>(QueryMsg::State {}).map(|s| s.total_fees.u128()).unwrap_or(self.m.fees);
            let owed2 = self.m.received_unpaid() + reported + self.m.refundable_sum(STAKED_DENOM);
            self.chk(&["C02"], bal == owed2, || format!("contract holds {bal} staked asset but State.total_fees={reported} plus unwithdrawn batches and refundable transfers make {owed2}"));
            let (x1, x2, x3) = (self.m.received_unpaid(), self.m.fees, self.m.refundable_sum(STAKED_DENOM));
            self.chk(&["C02"], bal == owed, || {
                format!("contract holds {bal} staked asset, owes {owed} = unwithdrawn batches {x1} + fees {x2} + refundable {x3}")
            });
        }
        // ---- C03: supply and contract-held LST
        let lst = self.a.lst_denom.clone();
        let supply = self.ch.supply_of(&lst) as i128;
        let off = self.m.supply_offset;
        self.chk(&["C03"], supply == l as i128 + off, || format!("LST supply {supply} != State total {l} (+ re-basing offset {off})"));
        let held_lst = self.ch.balance(&contract, &lst);
        let pend_total = self.m.batches[&self.m.pending].total;
        let want_lst = pend_total + self.m.refundable_sum(&lst);
        self.chk(&["C03"], held_lst == want_lst, || format!("contract holds {held_lst} LST, pending batch {pend_total} + refundable LST {}", want_lst - pend_total));
        for (acct, want) in self.native_lst_expected.clone() {
            let got = self.ch.native_balance(&acct, NATIVE_LST_VOUCHER);
            self.chk(&["C03"], got == want, || format!("native recipient {acct} holds {got} LST vouchers, minted for it {want}"));
        }
        // ---- batches
        // (no struct literal of a contract response type: such types may gain fields)
        let all_batches: Vec<BatchResponse> = match self.query_all_batches() {
            Ok(b) => b,
            Err(e) => return self.chk(&["C16", "C06"], false, || format!("Batches query failed: {e}")),
        };
        let ids: Vec<u64> = all_batches.iter().map(|b| b.id).collect();
        let want_ids: Vec<u64> = self.m.batches.keys().copied().collect();
        self.chk(&["C06"], ids == want_ids, || format!("batch ids {:?}, model {:?}", ids, want_ids));
        let npending = all_batches.iter().filter(|b| b.status == "pending").count();
        let last_pending = all_batches.last().map(|b| b.status == "pending").unwrap_or(false);
        self.chk(&["C06"], npending == 1 && last_pending, || format!("{npending} pending batches; highest id pending: {last_pending}"));
        for r in &all_batches {
            if let Some(b) = self.m.batches.get(&r.id).cloned() {
                let tags: &[&'static str] = if r.batch_total_liquid_stake.u128() != b.total
                    || (r.unstake_request_count != b.reqs.len() as u64 + b.withdrawn_count() && r.unstake_request_count != b.reqs.len() as u64)
                {
                    &["C05"]
                } else {
                    &["C06", "C04"]
                };
                self.chk(tags, Engine::batch_matches(&b, r), || format!("batch {:?} but model {:?}", r, b));
            }
        }
        let pb: Result<BatchResponse, _> = self.ch.query(QueryMsg::PendingBatch {});
        let pid = self.m.pending;
        self.chk(&["C06"], pb.as_ref().map(|b| b.id == pid).unwrap_or(false), || format!("PendingBatch {:?}, model {pid}", pb));
        // ---- unstake requests per user (C05 sum, C17 index)
        let mut people: Vec<String> = self.a.users.clone();
        for b in self.m.batches.values() {
            for u in b.reqs.keys() {
                if !people.contains(u) {
                    people.push(u.clone());
                }
            }
        }
        for u in people {
            let got: Result<Vec<UnstakeRequest>, _> = self.ch.query(QueryMsg::UnstakeRequests { user: Addr::unchecked(&u) });
            let mut want: Vec<(u64, u128)> = self.m.batches.values().filter_map(|b| b.reqs.get(&u).map(|x| (b.id, *x))).collect();
            want.sort();
            match got {
                Ok(v) => {
                    let mut g: Vec<(u64, u128)> = v.iter().map(|r| (r.batch_id, r.amount.u128())).collect();
                    let users_ok = v.iter().all(|r| r.user == u);
                    g.sort();
                    self.chk(&["C05", "C17"], g == want && users_ok, || format!("UnstakeRequests({u}) = {:?}, model {:?}", g, want));
                }
                Err(e) => self.chk(&["C16", "C17"], false, || format!("UnstakeRequests failed: {e}")),
            }
        }
        // ---- packet table
        let q = self.query_ibc_queue();
        let want: Vec<(u64, String, String, u128, Option<PStatus>)> =
            self.m.packets.values().map(|p| (p.seq, p.receiver.clone(), p.denom.clone(), p.amount, Some(p.status))).collect();
        self.chk(&["C07"], q == want, || format!("IbcQueue {:?}\n   model (from the IBC module's view) {:?}", q, want));
        // C02 (c) with the refunds the contract itself has on record: a refund the contract does not know of can never
        // be re-sent, so the balance then exceeds what the contract can account for
        if !self.m.fees_unbacked {
            let recorded: u128 = q.iter().filter(|p| p.2 == STAKED_DENOM && matches!(p.4, Some(PStatus::AckFailure) | Some(PStatus::TimedOut))).map(|p| p.3).sum();
            let reported = self.ch.query::<StateResponse>(QueryMsg::State {}).map(|s| s.total_fees.u128()).unwrap_or(self.m.fees);
            let unpaid = self.m.received_unpaid();
            let bal = self.ch.balance(&contract, STAKED_DENOM);
            self.chk(&["C02"], bal == unpaid + reported + recorded, || {
                format!("contract holds {bal} staked asset but its own records account for unwithdrawn batches {unpaid} + fees {reported} + refunded transfers awaiting re-send {recorded}")
            });
        }
        let rq: Result<IBCReplyQueueResponse, _> = self.ch.query(QueryMsg::IbcReplyQueue { start_after: None, limit: Some(50) });
        self.chk(&["C07"], rq.as_ref().map(|r| r.ibc_queue.is_empty()).unwrap_or(false), || format!("IbcReplyQueue not empty between transactions: {:?}", rq));
        // ---- config
        let cfg: ConfigResponse = match self.ch.query(QueryMsg::Config {}) {
            Ok(c) => c,
            Err(e) => return self.chk(&["C16", "C14"], false, || format!("Config query failed: {e}")),
        };
        let halted = self.m.halted;
        self.chk(&["C10"], cfg.stopped == halted, || format!("Config.stopped={} model {halted}", cfg.stopped));
        let c = self.m.cfg.clone();
        let same = cfg.protocol_fee_config.dao_treasury_fee.u128() == c.fee_rate
            && cfg.protocol_fee_config.treasury_address.as_ref().map(|a| a.to_string()) == c.treasury
            && cfg.protocol_chain_config.oracle_address.as_ref().map(|a| a.to_string()) == c.oracle
            && cfg.protocol_chain_config.minimum_liquid_stake_amount.u128() == c.min_stake
            && cfg.protocol_chain_config.ibc_channel_id == c.channel
            && cfg.protocol_chain_config.ibc_token_denom == c.staked_denom
            && cfg.protocol_chain_config.account_address_prefix == c.pprefix
            && cfg.native_chain_config.account_address_prefix == c.nprefix
            && cfg.native_chain_config.validator_address_prefix == c.vprefix
            && cfg.native_chain_config.token_denom == c.native_token_denom
            && cfg.native_chain_config.unbonding_period == c.unbonding
            && cfg.native_chain_config.staker_address.as_str() == c.staker
            && cfg.native_chain_config.reward_collector_address.as_str() == c.collector
            && cfg.native_chain_config.validators.iter().map(|a| a.to_string()).collect::<Vec<_>>() == c.validators
            && cfg.monitors.iter().map(|a| a.to_string()).collect::<Vec<_>>() == c.monitors
            && cfg.batch_period == c.batch_period
            && cfg.liquid_stake_token_denom == c.lst_denom;
        self.chk(&["C14"], same, || format!("Config {:?}\n   model {:?}", cfg, c));
    }

    // ------------------------------------------------------------ query ops (single pages vs model)

    pub fn do_query(&mut self, q: &QuerySel) {
        self.stats.bump("Query");
        match q {
            QuerySel::Batches { start, limit, status } => {
                let st = status.map(|s| match s % 3 {
                    0 => (BatchStatus::Pending, "pending"),
                    1 => (BatchStatus::Submitted, "submitted"),
                    _ => (BatchStatus::Received, "received"),
                });
                let start_after = start.map(|s| s as u64);
                let r: Result<BatchesResponse, _> = self.ch.query(QueryMsg::Batches {
                    start_after,
                    limit: Some(*limit as u32),
                    status: st.as_ref().map(|s| s.0.clone()),
                });
                let want: Vec<u64> = self
                    .m
                    .batches
                    .values()
                    .filter(|b| start_after.map(|s| b.id > s).unwrap_or(true))
                    .filter(|b| st.as_ref().map(|s| b.status.as_str() == s.1).unwrap_or(true))
                    .map(|b| b.id)
                    .collect();
                let what = format!("Batches start_after={start_after:?} limit={limit} status={:?}", st.as_ref().map(|s| s.1));
                self.note(what.clone());
                match r {
                    Ok(r) => {
                        let got: Vec<u64> = r.batches.iter().map(|b| b.id).collect();
                        // a page is the first min(limit, remaining) matching batches after the cursor; a shorter page that does not
                        // exhaust them is tolerated only as a page-size cap (at least PAGE_CAP_MIN items)
                        let ok = got.len() <= *limit as usize && want.starts_with(&got) && (got.len() == (*limit as usize).min(want.len()) || (got.len() >= PAGE_CAP_MIN && got.len() < want.len()));
                        self.chk(&["C17"], ok, || format!("{what}: got {:?}, full-scan reference {:?}", got, want));
                    }
                    // a page size of 0 may be refused with a typed error
                    Err(e) => self.chk(&["C17", "C16"], *limit == 0 && !e.contains("PANIC"), || format!("{what}: {e}")),
                }
            }
            QuerySel::BatchesByIds(ids) => {
                let ids: Vec<u64> = ids.iter().map(|i| *i as u64).collect();
                let r: Result<BatchesResponse, _> = self.ch.query(QueryMsg::BatchesByIds { ids: ids.clone() });
                let want: Vec<u64> = ids.iter().copied().filter(|i| self.m.batches.contains_key(i)).collect();
                let what = format!("BatchesByIds {:?}", ids);
                self.note(what.clone());
                match r {
                    Ok(r) => {
                        let got: Vec<u64> = r.batches.iter().map(|b| b.id).collect();
                        let content_ok = r.batches.iter().all(|b| self.m.batches.get(&b.id).map(|m| Engine::batch_matches(m, b)).unwrap_or(false));
                        // "exactly the existing requested batches": repeats in the request may or may not be repeated in the answer
                        let mut once: Vec<u64> = vec![];
                        for i in &want {
                            if !once.contains(i) {
                                once.push(*i);
                            }
                        }
                        self.chk(&["C17"], (got == want || got == once) && content_ok, || format!("{what}: got {:?}, reference {:?}", got, want));
                    }
                    Err(e) => self.chk(&["C17", "C16"], false, || format!("{what}: {e}")),
                }
            }
            QuerySel::IbcQueue { start, limit } => {
                let start_after = start.map(|s| {
                    // map the selector into the neighbourhood of live sequences
                    let keys: Vec<u64> = self.m.packets.keys().copied().collect();
                    if keys.is_empty() {
                        s as u64
                    } else {
                        keys[(s as usize * keys.len()) / 40].saturating_add((s % 3) as u64).saturating_sub(1)
                    }
                });
                let r: Result<IBCQueueResponse, _> = self.ch.query(QueryMsg::IbcQueue { start_after, limit: Some(*limit as u32) });
                let want: Vec<u64> = self.m.packets.keys().copied().filter(|k| start_after.map(|s| *k > s).unwrap_or(true)).collect();
                let what = format!("IbcQueue start_after={start_after:?} limit={limit}");
                self.note(what.clone());
                match r {
                    Ok(r) => {
                        let got: Vec<u64> = r.ibc_queue.iter().map(|p| p.sequence).collect();
                        let ok = got.len() <= *limit as usize && want.starts_with(&got) && (got.len() == (*limit as usize).min(want.len()) || (got.len() >= PAGE_CAP_MIN && got.len() < want.len()));
                        self.chk(&["C17"], ok, || format!("{what}: got {:?}, reference {:?}", got, want));
                    }
                    Err(e) => self.chk(&["C17", "C16"], *limit == 0 && !e.contains("PANIC"), || format!("{what}: {e}")),
                }
            }
            QuerySel::ReplyQueue { start, limit } => {
                let r = self.ch.query_raw(QueryMsg::IbcReplyQueue { start_after: start.map(|s| s as u64), limit: Some(*limit as u32) });
                self.note("ReplyQueue".into());
                if let Err(p) = r {
                    self.chk(&["C16"], false, || format!("IbcReplyQueue panicked: {} at {}", p.message, p.location));
                }
            }
            QuerySel::Requests(i) => {
                // covered for every user by `invariants`; here: a stranger and a malformed address
                let u = if *i % 2 == 0 { self.a.contract32.clone() } else { "garbage".to_string() };
                let r = self.ch.query_raw(QueryMsg::UnstakeRequests { user: Addr::unchecked(&u) });
                self.note(format!("UnstakeRequests({u})"));
                match r {
                    Err(p) => self.chk(&["C16"], false, || format!("UnstakeRequests panicked: {} at {}", p.message, p.location)),
                    Ok(Ok(b)) => {
                        let v: Vec<UnstakeRequest> = cosmwasm_std::from_json(&b).unwrap_or_default();
                        let open = self.m.batches.values().any(|b| b.reqs.contains_key(&u));
                        self.chk(&["C17"], v.is_empty() != open, || format!("UnstakeRequests({u}) returned {} entries", v.len()));
                    }
                    Ok(Err(_)) => {}
                }
            }
            QuerySel::AllRequests { start, limit, v2 } => {
                let (s, l) = (start.map(|s| s as u64), Some(*limit as u32));
                let r = if *v2 {
                    self.ch.query_raw(QueryMsg::AllUnstakeRequestsV2 { start_after: s, limit: l })
                } else {
                    self.ch.query_raw(QueryMsg::AllUnstakeRequests { start_after: s, limit: l })
                };
                self.note("AllUnstakeRequests".into());
                if let Err(p) = r {
                    self.chk(&["C16"], false, || format!("AllUnstakeRequests panicked: {} at {}", p.message, p.location));
                }
            }
            QuerySel::Batch(i) => {
                let id = *i as u64;
                let r: Result<BatchResponse, _> = self.ch.query(QueryMsg::Batch { id });
                self.note(format!("Batch {id}"));
                match (r, self.m.batches.get(&id).cloned()) {
                    (Ok(r), Some(b)) => self.chk(&["C17", "C06"], Engine::batch_matches(&b, &r), || format!("Batch {id}: {:?} model {:?}", r, b)),
                    (Ok(r), None) => self.chk(&["C17"], false, || format!("Batch {id} does not exist but query returned {:?}", r)),
                    (Err(e), Some(_)) => self.chk(&["C17"], !e.contains("PANIC") && false, || format!("Batch {id} exists but query failed: {e}")),
                    (Err(e), None) => self.chk(&["C16"], !e.contains("PANIC"), || format!("Batch {id}: {e}")),
                }
            }
        }
    }
}
