//! Dispatch of `check <ID>` and `replay <ID> <file>`.

use crate::ops::Case;
use crate::props;
use crate::runner::*;

pub fn run_check(prop: &str, thorough: bool, seed: u64) -> Option<Report> {
    if let Some(r) = props::check_history(prop, thorough, seed) {
        return Some(r);
    }
    let tier = if thorough { "thorough" } else { "quick" };
    match prop {
        "C12" => {
            let mut rep = Report::new("C12", tier, seed, "sequences of 4-40 nominate / revoke / accept / admin-only-probe / clock steps by 5 principals (the current admin plus 4 fixed accounts), the clock aligned to 7d-1s / 7d / 7d+1s after the latest nomination; the identical sequence runs against the staking and the treasury contract; non-trivial = a re-nomination, revocation or completed handover AND an acceptance attempt by the nominee exactly at or one second before the earliest time; distinct by step-trace hash");
            rep.assumptions = vec!["staking admin observed through an admin-only probe (FeeWithdraw 0 => authorization error iff not admin) and State.pending_owner; treasury admin through its Config query".into()];
            rep.absorb(crate::props_treasury::check_c12(if thorough { 2_000_000 } else { 30_000 }, seed));
            // the handover interleaved with every other operation of the staking contract (resume, breaker,
            // config updates, stakes ...), judged by the same four-field model inside the history engine
            rep.absorb(run_histories("C12", &props::p_c12(), if thorough { 150_000 } else { 3_000 }, seed, 121, props::nt_c12));
            rep.assumptions.push("history part: nominate/revoke/accept by admin, former admin, nominee, monitors and users interleaved with all other staking operations; non-trivial = an acceptance attempt by the nominee at the boundary, a re-nomination/revocation/handover, and at least one other admin operation in the same history".into());
            Some(rep)
        }
        "C13" => {
            let mut rep = Report::new("C13", tier, seed, "treasury instances with allow-lists of 0-5 routes (1-4 hops over 5 denoms, small pool ids so coincidences are common) and 1-25 ops: swaps whose candidate route is an exact copy, prefix, suffix, reversal, concatenation or one-field edit of an allowed route, spends to 8 receiver shapes with/without channel, config updates, by admin/trader/strangers; non-trivial = an accepted swap or a trader's candidate derived from an allowed route and rejected; distinct by op-trace hash");
            rep.assumptions = vec!["emitted Osmosis messages decoded with the harness's own protobuf reader (field numbers from the upstream .proto)".into()];
            rep.absorb(crate::props_treasury::check_c13(if thorough { 5_000_000 } else { 100_000 }, seed));
            Some(rep)
        }
        "C08" => {
            let mut rep = Report::new("C08", tier, seed, "reachable state from a generated history of 15-60 ops (with ownership handovers, config changes, refundable packets, submitted and received batches), then up to 18 message variants x 11-13 principals (admin, former admin, nominee, initial admin, monitors, staker/reward hook accounts and their wrong-channel / wrong-sender / wrong-prefix counterparts, the contract itself, a user), each on its own copy of the state; non-trivial = a state in which some message is denied to an unentitled principal while the same message succeeds for the rightful one; distinct by history+matrix hash");
            rep.assumptions = crate::props::history_assumptions();
            rep.absorb(crate::props_c08::check_c08(if thorough { 50_000 } else { 1_500 }, seed));
            Some(rep)
        }
        "C10" => {
            let mut rep = Report::new("C10", tier, seed, "generated history (0-45 ops incl. breaker/resume by admin, monitors and others), then the breaker is tripped by the admin or a monitor (or a freshly instantiated contract is taken), then 6-14 probes of the six value-moving operations: each probe is constructed and executed on a resumed copy and the identical transaction re-submitted on the halted copy; non-trivial = a probe that succeeds on the resumed copy (so a lost guard would be visible); distinct by history+probe hash. Halting/resuming raw-storage diffs are compared in every history");
            rep.assumptions = crate::props::history_assumptions();
            rep.absorb(crate::props_c10::check_c10(if thorough { 200_000 } else { 5_000 }, seed));
            Some(rep)
        }
        "C19" => Some(check_c19(thorough, seed)),
        "C18" => {
            let mut rep = Report::new("C18", tier, seed, "pre-upgrade stores: state reached by a generated history (0-25 ops) with contract_info set to name x version drawn from {staking, treasury, other} x 10 version strings and one of the three MigrateMsg paths (60% of cases sit exactly on the gate); for 1.0.0->1.1.0 the packet tables are replaced by 0-40 legacy packets (all four statuses, amounts to 2^128-1, keys equal or unequal to the sequence) and 0-6 legacy pending replies written as raw JSON; for the older paths a legacy flat config with optional fields present/absent and (0.4.20->1.0.0) right or wrong prefixes in the message; treasury gate: 3 names x 9 versions. Non-trivial = a 1.1.0 store with >=2 refundable and >=1 in-flight packet, a successful older-path translation, or a refused case differing from an accepted one in exactly one of name/version/path; distinct by store hash");
            rep.assumptions = vec![
                "legacy layouts transcribed by hand from migrations/states/*.rs into raw JSON under raw cw-storage-plus keys".into(),
                "a migration is one atomic transaction: the only crash behaviour is full rollback, which the refusal branch covers (stated, not simulated)".into(),
                "operability after upgrade checked only for stores whose keys equal the packet sequence (what the 1.0.0 contract wrote) and whose refundable sum fits the amount domain".into(),
            ];
            rep.absorb(crate::props_c18::check_c18(if thorough { 1_000_000 } else { 30_000 }, seed));
            Some(rep)
        }
        "C14" => {
            let mut rep = Report::new("C14", tier, seed, "valid configurations from a generator (random prefixes, addresses built by the harness's own bech32 encoder, validator/monitor sets, channels over u64, denoms) with 0-3 field-level corruptions (13 fields x up to 14 corruption kinds: prefix swaps, case changes, truncation/extension, duplicates, checksum damage, bech32m, malformed channels/denoms), instantiated and then updated with every subset of sections and Add/RemoveValidator calls; non-trivial = a message differing from a valid one in exactly one field, or an accepted update of a strict subset of sections, or a validator change; distinct by case hash");
            rep.assumptions = vec![
                "well-formedness judged on what the Config query returns, with the harness's own bech32 decoder; upper-case and bech32m spellings count as checksum-valid (DESIGN 1.1)".into(),
                "converse (valid => accepted) asserted only for configurations built by the valid generator".into(),
            ];
            rep.absorb(crate::props_config::check_c14(if thorough { 5_000_000 } else { 100_000 }, seed));
            Some(rep)
        }
        _ => None,
    }
}

/// Re-run one saved case with no property library in the loop; prints the failing step.
pub fn replay(prop: &str, file: &str) -> i32 {
    let body = match std::fs::read_to_string(file) {
        Ok(b) => b,
        Err(e) => {
            eprintln!("cannot read {file}: {e}");
            return 2;
        }
    };
    let v: serde_json::Value = match serde_json::from_str(&body) {
        Ok(v) => v,
        Err(e) => {
            eprintln!("bad json: {e}");
            return 2;
        }
    };
    let case_v = v.get("case").cloned().unwrap_or(v.clone());
    if prop == "C16" && case_v.get("routes").is_some() {
        if let Ok(c) = serde_json::from_value::<crate::props_treasury::TCase>(case_v.clone()) {
            let mut scratch = Agg::default();
            return match crate::props_treasury::check_tcase(&c, &mut scratch) {
                Err(m) if m.contains("PANIC") => {
                    println!("{m}");
                    println!("VIOLATION property={prop} replay={file}");
                    1
                }
                _ => {
                    println!("replay passed: no violation of {prop}");
                    0
                }
            };
        }
    }
    if let (true, Ok(hc)) = (case_v.get("calls").is_some(), serde_json::from_value::<crate::props_extra::HostileCase>(case_v.clone())) {
        let mut scratch = Agg::default();
        return match crate::props_extra::check_hostile(&hc, &mut scratch) {
            Ok(()) => {
                println!("replay passed: no violation of {prop}");
                0
            }
            Err(m) => {
                println!("{m}");
                println!("VIOLATION property={prop} replay={file}");
                1
            }
        };
    }
    if let (true, Ok(case)) = (case_v.get("setup").is_some(), serde_json::from_value::<Case>(case_v.clone())) {
        if prop == "C15" || prop == "C05" {
            // the differential / metamorphic oracles use the same case format: run them too
            let mut scratch = Agg::default();
            let r = if prop == "C15" { crate::props_extra::check_c15_diff(&case, &mut scratch) } else { crate::props_extra::check_c05_perm(&case, &mut scratch) };
            if let Err(m) = r {
                println!("{m}");
                println!("VIOLATION property={prop} replay={file}");
                return 1;
            }
        }
        if prop == "C19" && cfg!(feature = "miniwasm") {
            return replay_c19(file, &case);
        }
        let r = run_case(&case, true);
        if prop == "C19" && !r.viol.as_ref().map(|v| v.tags.contains(&"C19")).unwrap_or(false) {
            return replay_c19(file, &case);
        }
        for l in &r.log {
            println!("{l}");
        }
        return match r.viol {
            Some(v) if v.tags.iter().any(|t| *t == prop) => {
                println!("step {}: [{}] {}", v.step, v.tags.join(","), v.msg);
                println!("VIOLATION property={prop} replay={file}");
                1
            }
            Some(v) => {
                println!("(divergence under other properties {:?} at step {}: {})", v.tags, v.step, v.msg);
                0
            }
            None => {
                println!("replay passed: no violation of {prop}");
                0
            }
        };
    }
    let mut scratch = Agg::default();
    let res: Option<Result<(), String>> = match prop {
        "C12" => serde_json::from_value::<Vec<crate::props_treasury::OwnStep>>(case_v.clone()).ok().map(|c| crate::props_treasury::check_own_case(&c, &mut scratch)),
        "C13" => serde_json::from_value::<crate::props_treasury::TCase>(case_v.clone()).ok().map(|c| crate::props_treasury::check_tcase(&c, &mut scratch)),
        "C08" => serde_json::from_value::<crate::props_c08::C08Case>(case_v.clone()).ok().map(|c| crate::props_c08::check_c08_case(&c, &mut scratch)),
        "C18" => match serde_json::from_value::<crate::props_c18::MigCase>(case_v.clone()) {
            Ok(c) => Some(crate::props_c18::check_mig_case(&c, &mut scratch)),
            Err(_) => serde_json::from_value::<crate::props_c18::TGate>(case_v.clone()).ok().map(|c| crate::props_c18::check_tgate(&c, &mut scratch)),
        },
        "C19" if case_v.is_array() => serde_json::from_value::<crate::props_c19::SubCase>(case_v.clone()).ok().map(|c| crate::props_c19::check_subdenom(&c, &mut scratch)),
        "C17" => serde_json::from_value::<crate::props_c17::PageCase>(case_v.clone()).ok().map(|c| crate::props_c17::check_page_case(&c, &mut scratch)),
        "C10" => serde_json::from_value::<crate::props_c10::C10Case>(case_v.clone()).ok().map(|c| crate::props_c10::check_c10_case(&c, &mut scratch)),
        "C14" => serde_json::from_value::<crate::props_config::CfgCase>(case_v.clone()).ok().map(|c| crate::props_config::check_cfg_case(&c, &mut scratch)),
        "C04" => serde_json::from_value::<crate::props_pure::RateCase>(case_v.clone()).ok().map(|c| crate::props_pure::check_rate_case(&c).map(|_| ())),
        "C09" => serde_json::from_value::<crate::props_pure::DeriveCase>(case_v.clone()).ok().map(|c| crate::props_pure::check_derive_case(&c).map(|_| ())),
        _ => None,
    };
    match res {
        Some(Ok(())) => {
            println!("replay passed: no violation of {prop}");
            return 0;
        }
        Some(Err(m)) => {
            println!("{m}");
            println!("VIOLATION property={prop} replay={file}");
            return 1;
        }
        None => {}
    }
    eprintln!("replay format not recognised for {prop}");
    2
}

const MW_BIN: &str = "/verif/target-mw/release/harness";

/// C19: (1) histories on this build, (2) the same on the other feature build (sub-process),
/// (3) digest of the canonical trace of N histories computed by both binaries must agree.
fn check_c19(thorough: bool, seed: u64) -> Report {
    let tier = if thorough { "thorough" } else { "quick" };
    let mut rep = Report::new("C19", tier, seed, "stake/submit-heavy histories of 15-50 ops run on the Osmosis build and on the miniwasm build (own token-factory module URL per build; message bytes decoded by the harness's protobuf reader: sender, holder, denom factory/<contract>/<subdenom>, exact amount, canonical field order); plus a differential: the canonical trace (outcomes, ledgers, supply, packets, raw storage, query results after every step) of the same generated histories computed by both binaries must be identical; non-trivial = a history with >=1 mint and >=1 burn at an exchange rate != 1; distinct by executed-op hash");
    rep.assumptions = crate::props::history_assumptions();
    rep.assumptions.push("the two builds are separate binaries of the same harness sources (cargo features cannot coexist in one binary); both are rebuilt from /repo's tree by ./check".into());
    let p = crate::props_c19::profile();
    let n_hist = if thorough { 50_000 } else { 1_500 };
    rep.absorb(run_histories("C19", &p, n_hist, seed, 19, crate::props_c19::nontrivial));
    rep.absorb(crate::props_c19::run_subdenoms(if thorough { 200_000 } else { 5_000 }, seed));
    if cfg!(feature = "miniwasm") {
        // running as the sub-process: only the histories of this build
        return rep;
    }
    if !std::path::Path::new(MW_BIN).exists() {
        rep.agg.extra.insert("harness_error".into(), serde_json::json!("miniwasm build of the harness is missing (run ./setup.sh or ./check C19)"));
        return rep;
    }
    // (2) histories on the miniwasm build
    let out = std::process::Command::new(MW_BIN).args(["check", "C19", tier]).env("VERIF_SEED", seed.to_string()).output();
    match out {
        Ok(o) => {
            let text = String::from_utf8_lossy(&o.stdout).to_string();
            for l in text.lines().filter(|l| l.starts_with("VIOLATION") || l.starts_with("  ")) {
                println!("[miniwasm build] {l}");
            }
            if o.status.code() == Some(1) {
                rep.failures.push(Failure { message: format!("miniwasm build: {}", text.lines().filter(|l| l.starts_with("  ")).next().unwrap_or("violation")), replay: serde_json::Value::Null });
            } else if o.status.code() != Some(0) {
                rep.agg.extra.insert("harness_error".into(), serde_json::json!(format!("miniwasm sub-process exit {:?}", o.status.code())));
            }
            if let Ok(ev) = std::fs::read_to_string(format!("{VERIF}/evidence/C19.miniwasm.json")) {
                if let Ok(v) = serde_json::from_str::<serde_json::Value>(&ev) {
                    rep.agg.extra.insert("miniwasm_build_run".into(), serde_json::json!({
                        "evaluations": v["coverage"]["evaluations"], "distinct_nontrivial": v["coverage"]["distinct_nontrivial"],
                        "op_outcome_distribution": v["coverage"]["op_outcome_distribution"], "build_feature": v["coverage"]["build_feature"]}));
                }
            }
        }
        Err(e) => {
            rep.agg.extra.insert("harness_error".into(), serde_json::json!(format!("cannot run miniwasm build: {e}")));
        }
    }
    // (3) differential traces
    let n = if thorough { 50_000 } else { 1_500 };
    let cases = crate::props_c19::cases_for(seed, n);
    let other = std::process::Command::new(MW_BIN).args(["traces", &seed.to_string(), &n.to_string()]).output();
    let other = match other {
        Ok(o) if o.status.success() => String::from_utf8_lossy(&o.stdout).to_string(),
        other => {
            rep.agg.extra.insert("harness_error".into(), serde_json::json!(format!("miniwasm traces failed: {:?}", other.map(|o| o.status))));
            return rep;
        }
    };
    let other: Vec<&str> = other.lines().collect();
    let mut compared = 0u64;
    for (i, c) in cases.iter().enumerate() {
        let mine = format!("{i} {}", crate::props_c19::trace_digest(c));
        compared += 1;
        if other.get(i).copied() != Some(mine.as_str()) {
            rep.failures.push(Failure {
                message: format!("history {i}: canonical trace differs between the Osmosis and the miniwasm build (digest {mine} vs {:?}); replay prints both traces", other.get(i)),
                replay: serde_json::to_value(c).unwrap(),
            });
            break;
        }
    }
    rep.agg.extra.insert("differential_histories_compared".into(), serde_json::json!(compared));
    rep
}

/// replay for C19: single-build checks, then both builds' traces side by side
pub fn replay_c19(file: &str, case: &Case) -> i32 {
    let mine = crate::props_c19::trace_case(case);
    if cfg!(feature = "miniwasm") {
        for l in mine {
            println!("{l}");
        }
        return 0;
    }
    let other = std::process::Command::new(MW_BIN).args(["replay", "C19", file]).output();
    let other: Vec<String> = match other {
        Ok(o) => String::from_utf8_lossy(&o.stdout).lines().map(|s| s.to_string()).collect(),
        Err(_) => vec![],
    };
    for (i, l) in mine.iter().enumerate() {
        if other.get(i) != Some(l) {
            println!("first difference at trace line {i}:\n  osmosis : {l}\n  miniwasm: {:?}", other.get(i));
            println!("VIOLATION property=C19 replay={file}");
            return 1;
        }
    }
    println!("replay passed: traces of both builds identical ({} lines)", mine.len());
    0
}
