//! Dispatch of `check <ID>` and `replay <ID> <file>`.

use crate::ops::Case;
use crate::props;
use crate::runner::*;

pub fn run_check(prop: &str, thorough: bool, seed: u64) -> Option<Report> {
    if let Some(r) = props::check_history(prop, thorough, seed) {
        return Some(r);
    }
    None
}

/// Re-run one saved case with no property library in the loop; prints the failing step.
pub fn replay(prop: &str, file: &str) -> i32 {
    let body = match std::fs::read_to_string(file) {
        Ok(b) => b,
        Err(e) => {
            eprintln!("cannot read {file}: {e}");
            return 2;
        }
    };
    let v: serde_json::Value = match serde_json::from_str(&body) {
        Ok(v) => v,
        Err(e) => {
            eprintln!("bad json: {e}");
            return 2;
        }
    };
    let case_v = v.get("case").cloned().unwrap_or(v.clone());
    if let Ok(case) = serde_json::from_value::<Case>(case_v.clone()) {
        let r = run_case(&case, true);
        for l in &r.log {
            println!("{l}");
        }
        return match r.viol {
            Some(v) if v.tags.iter().any(|t| *t == prop) => {
                println!("step {}: [{}] {}", v.step, v.tags.join(","), v.msg);
                println!("VIOLATION property={prop} replay={file}");
                1
            }
            Some(v) => {
                println!("(divergence under other properties {:?} at step {}: {})", v.tags, v.step, v.msg);
                0
            }
            None => {
                println!("replay passed: no violation of {prop}");
                0
            }
        };
    }
    eprintln!("replay format not recognised for {prop}");
    2
}
