//! Dispatch of `check <ID>` and `replay <ID> <file>`.

use crate::ops::Case;
use crate::props;
use crate::runner::*;

pub fn run_check(prop: &str, thorough: bool, seed: u64) -> Option<Report> {
    if let Some(r) = props::check_history(prop, thorough, seed) {
        return Some(r);
    }
    let tier = if thorough { "thorough" } else { "quick" };
    match prop {
        "C12" => {
            let mut rep = Report::new("C12", tier, seed, "sequences of 4-40 nominate / revoke / accept / admin-only-probe / clock steps by 5 principals (the current admin plus 4 fixed accounts), the clock aligned to 7d-1s / 7d / 7d+1s after the latest nomination; the identical sequence runs against the staking and the treasury contract; non-trivial = a re-nomination, revocation or completed handover AND an acceptance attempt by the nominee exactly at or one second before the earliest time; distinct by step-trace hash");
            rep.assumptions = vec!["staking admin observed through an admin-only probe (FeeWithdraw 0 => authorization error iff not admin) and State.pending_owner; treasury admin through its Config query".into()];
            rep.absorb(crate::props_treasury::check_c12(if thorough { 200_000 } else { 6_000 }, seed));
            Some(rep)
        }
        "C13" => {
            let mut rep = Report::new("C13", tier, seed, "treasury instances with allow-lists of 0-5 routes (1-4 hops over 5 denoms, small pool ids so coincidences are common) and 1-25 ops: swaps whose candidate route is an exact copy, prefix, suffix, reversal, concatenation or one-field edit of an allowed route, spends to 8 receiver shapes with/without channel, config updates, by admin/trader/strangers; non-trivial = an accepted swap or a trader's candidate derived from an allowed route and rejected; distinct by op-trace hash");
            rep.assumptions = vec!["emitted Osmosis messages decoded with the harness's own protobuf reader (field numbers from the upstream .proto)".into()];
            rep.absorb(crate::props_treasury::check_c13(if thorough { 2_000_000 } else { 40_000 }, seed));
            Some(rep)
        }
        "C08" => {
            let mut rep = Report::new("C08", tier, seed, "reachable state from a generated history of 15-60 ops (with ownership handovers, config changes, refundable packets, submitted and received batches), then up to 18 message variants x 11-13 principals (admin, former admin, nominee, initial admin, monitors, staker/reward hook accounts and their wrong-channel / wrong-sender / wrong-prefix counterparts, the contract itself, a user), each on its own copy of the state; non-trivial = a state in which some message is denied to an unentitled principal while the same message succeeds for the rightful one; distinct by history+matrix hash");
            rep.assumptions = crate::props::history_assumptions();
            rep.absorb(crate::props_c08::check_c08(if thorough { 5_000 } else { 300 }, seed));
            Some(rep)
        }
        "C10" => {
            let mut rep = Report::new("C10", tier, seed, "generated history (0-45 ops incl. breaker/resume by admin, monitors and others), then the breaker is tripped by the admin or a monitor (or a freshly instantiated contract is taken), then 6-14 probes of the six value-moving operations: each probe is constructed and executed on a resumed copy and the identical transaction re-submitted on the halted copy; non-trivial = a probe that succeeds on the resumed copy (so a lost guard would be visible); distinct by history+probe hash. Halting/resuming raw-storage diffs are compared in every history");
            rep.assumptions = crate::props::history_assumptions();
            rep.absorb(crate::props_c10::check_c10(if thorough { 20_000 } else { 1_000 }, seed));
            Some(rep)
        }
        "C14" => {
            let mut rep = Report::new("C14", tier, seed, "valid configurations from a generator (random prefixes, addresses built by the harness's own bech32 encoder, validator/monitor sets, channels over u64, denoms) with 0-3 field-level corruptions (13 fields x up to 14 corruption kinds: prefix swaps, case changes, truncation/extension, duplicates, checksum damage, bech32m, malformed channels/denoms), instantiated and then updated with every subset of sections and Add/RemoveValidator calls; non-trivial = a message differing from a valid one in exactly one field, or an accepted update of a strict subset of sections, or a validator change; distinct by case hash");
            rep.assumptions = vec![
                "well-formedness judged on what the Config query returns, with the harness's own bech32 decoder; upper-case and bech32m spellings count as checksum-valid (DESIGN 1.1)".into(),
                "converse (valid => accepted) asserted only for configurations built by the valid generator".into(),
            ];
            rep.absorb(crate::props_config::check_c14(if thorough { 2_000_000 } else { 40_000 }, seed));
            Some(rep)
        }
        _ => None,
    }
}

/// Re-run one saved case with no property library in the loop; prints the failing step.
pub fn replay(prop: &str, file: &str) -> i32 {
    let body = match std::fs::read_to_string(file) {
        Ok(b) => b,
        Err(e) => {
            eprintln!("cannot read {file}: {e}");
            return 2;
        }
    };
    let v: serde_json::Value = match serde_json::from_str(&body) {
        Ok(v) => v,
        Err(e) => {
            eprintln!("bad json: {e}");
            return 2;
        }
    };
    let case_v = v.get("case").cloned().unwrap_or(v.clone());
    if let (true, Ok(case)) = (case_v.get("setup").is_some(), serde_json::from_value::<Case>(case_v.clone())) {
        let r = run_case(&case, true);
        for l in &r.log {
            println!("{l}");
        }
        return match r.viol {
            Some(v) if v.tags.iter().any(|t| *t == prop) => {
                println!("step {}: [{}] {}", v.step, v.tags.join(","), v.msg);
                println!("VIOLATION property={prop} replay={file}");
                1
            }
            Some(v) => {
                println!("(divergence under other properties {:?} at step {}: {})", v.tags, v.step, v.msg);
                0
            }
            None => {
                println!("replay passed: no violation of {prop}");
                0
            }
        };
    }
    let mut scratch = Agg::default();
    let res: Option<Result<(), String>> = match prop {
        "C12" => serde_json::from_value::<Vec<crate::props_treasury::OwnStep>>(case_v.clone()).ok().map(|c| crate::props_treasury::check_own_case(&c, &mut scratch)),
        "C13" => serde_json::from_value::<crate::props_treasury::TCase>(case_v.clone()).ok().map(|c| crate::props_treasury::check_tcase(&c, &mut scratch)),
        "C08" => serde_json::from_value::<crate::props_c08::C08Case>(case_v.clone()).ok().map(|c| crate::props_c08::check_c08_case(&c, &mut scratch)),
        "C17" => serde_json::from_value::<crate::props_c17::PageCase>(case_v.clone()).ok().map(|c| crate::props_c17::check_page_case(&c, &mut scratch)),
        "C10" => serde_json::from_value::<crate::props_c10::C10Case>(case_v.clone()).ok().map(|c| crate::props_c10::check_c10_case(&c, &mut scratch)),
        "C14" => serde_json::from_value::<crate::props_config::CfgCase>(case_v.clone()).ok().map(|c| crate::props_config::check_cfg_case(&c, &mut scratch)),
        "C04" => serde_json::from_value::<crate::props_pure::RateCase>(case_v.clone()).ok().map(|c| crate::props_pure::check_rate_case(&c).map(|_| ())),
        "C09" => serde_json::from_value::<crate::props_pure::DeriveCase>(case_v.clone()).ok().map(|c| crate::props_pure::check_derive_case(&c).map(|_| ())),
        _ => None,
    };
    match res {
        Some(Ok(())) => {
            println!("replay passed: no violation of {prop}");
            return 0;
        }
        Some(Err(m)) => {
            println!("{m}");
            println!("VIOLATION property={prop} replay={file}");
            return 1;
        }
        None => {}
    }
    eprintln!("replay format not recognised for {prop}");
    2
}
