//! Glue for the libFuzzer targets in /verif/fuzz: bytes -> structured case via proptest's
//! pass-through RNG (the same strategies as the proptest drivers), oracle inside the target.

use crate::ops::{Case, Profile};
use crate::runner::*;
use proptest::strategy::{Strategy, ValueTree};
use proptest::test_runner::{RngAlgorithm, TestRng, TestRunner};

/// proptest's pass-through RNG cannot be used here: it halves its window at every fork and yields
/// zeros once a window is exhausted, on which rand 0.9's rejection sampling loops forever.
/// Instead the input is cut into 16-byte records, each of which seeds one XorShift generator:
/// record 0 generates the Setup, every further record generates one op (so libFuzzer's block
/// insert / delete / copy mutations act on whole ops and a changed record changes one op only).
fn runner_for_record(rec: &[u8]) -> TestRunner {
    let mut seed = [0u8; 16];
    seed[..rec.len().min(16)].copy_from_slice(&rec[..rec.len().min(16)]);
    TestRunner::new_with_rng(pt_config(1, 0), TestRng::from_seed(RngAlgorithm::XorShift, &seed))
}

/// For generators without a natural record structure: the whole input is hashed into a ChaCha seed
/// (random search with libFuzzer's corpus management, no structure-aware mutation).
fn runner_hashed(data: &[u8]) -> TestRunner {
    let seed = crate::crypto::sha256(data);
    TestRunner::new_with_rng(pt_config(1, 0), TestRng::from_seed(RngAlgorithm::ChaCha, &seed))
}

pub fn fuzz_profile() -> Profile {
    // union profile: everything enabled (hostile callers, sweeps, huge fees, extreme periods)
    let mut p = Profile::base("fuzz");
    p.len = (1, 60);
    p.hostile_callers = std::env::var("VERIF_FUZZ_HOSTILE").is_ok();
    p.sweep = true;
    p.huge_fees = true;
    p.w_breaker = 1;
    p.w_query = 3;
    p.w_owner = 2;
    p
}

pub fn case_from_bytes(data: &[u8]) -> Option<Case> {
    if data.len() < 32 {
        return None;
    }
    let p = fuzz_profile();
    let setup = crate::ops::setup_strategy(&p).new_tree(&mut runner_for_record(&data[..16])).ok()?.current();
    let ops_s = crate::ops::op_strategy(&p);
    let mut ops = vec![];
    for rec in data[16..].chunks(16).take(80) {
        if rec.len() < 16 {
            break;
        }
        ops.push(ops_s.new_tree(&mut runner_for_record(rec)).ok()?.current());
    }
    Some(Case { setup, ops })
}

fn wanted(tags: &[&'static str]) -> Option<String> {
    match std::env::var("VERIF_FUZZ_PROP") {
        Ok(p) => tags.iter().find(|t| **t == p.as_str()).map(|t| t.to_string()),
        Err(_) => tags.first().map(|t| t.to_string()),
    }
}

/// Some((property, message)) when a comparison tagged with the selected property fails.
pub fn run_history_case(case: &Case) -> Option<(String, String)> {
    let r = run_case(case, false);
    let v = r.viol?;
    let prop = wanted(&v.tags)?;
    Some((prop, format!("step {}: {}", v.step, v.msg)))
}

macro_rules! small {
    ($data:expr, $prop:expr, $strat:expr, $check:expr) => {{
        let mut r = runner_hashed(&$data[1..]);
        let c = $strat.new_tree(&mut r).ok()?.current();
        let mut agg = Agg::default();
        match $check(&c, &mut agg) {
            Ok(_) => None,
            Err(m) => Some(($prop.to_string(), m, serde_json::to_value(&c).ok()?)),
        }
    }};
}

pub fn run_small_case(data: &[u8]) -> Option<(String, String, serde_json::Value)> {
    if data.len() < 9 {
        return None;
    }
    let sel = match std::env::var("VERIF_FUZZ_PROP").ok().as_deref() {
        Some("C14") => 0,
        Some("C13") => 1,
        Some("C12") => 2,
        Some("C04") => 3,
        Some("C09") => 4,
        Some("C17") => 5,
        Some("C18") => 6,
        Some("C16") => 7,
        Some("C08") => 8,
        Some("C10") => 9,
        _ => data[0] % 10,
    };
    match sel {
        0 => small!(data, "C14", crate::props_config::cfg_case(), crate::props_config::check_cfg_case),
        1 => small!(data, "C13", crate::props_treasury::tcase(), crate::props_treasury::check_tcase),
        2 => small!(data, "C12", crate::props_treasury::own_steps(), |c: &Vec<crate::props_treasury::OwnStep>, a: &mut Agg| crate::props_treasury::check_own_case(c, a)),
        3 => small!(data, "C04", crate::props_pure::rate_case(), |c: &crate::props_pure::RateCase, _a: &mut Agg| crate::props_pure::check_rate_case(c)),
        4 => small!(data, "C09", crate::props_pure::derive_case(), |c: &crate::props_pure::DeriveCase, _a: &mut Agg| crate::props_pure::check_derive_case(c)),
        5 => small!(data, "C17", crate::props_c17::page_case(), crate::props_c17::check_page_case),
        6 => small!(data, "C18", crate::props_c18::mig_case(), crate::props_c18::check_mig_case),
        7 => {
            let mut p = fuzz_profile();
            p.hostile_callers = true;
            p.extreme_periods = true;
            small!(data, "C16", crate::props_extra::hostile_case(&p), crate::props_extra::check_hostile)
        }
        8 => small!(data, "C08", crate::props_c08::c08_case(), crate::props_c08::check_c08_case),
        _ => small!(data, "C10", crate::props_c10::c10_case(), crate::props_c10::check_c10_case),
    }
}

/// Writes the replay file, prints the VIOLATION line and aborts so that libFuzzer saves the input.
pub fn report_and_abort(prop: &str, msg: &str, case: &serde_json::Value) -> ! {
    let h = crate::crypto::sha256(msg.as_bytes());
    let name = format!("{prop}-fuzz-{}.json", h[..8].iter().map(|b| format!("{:02x}", b)).collect::<String>());
    let path = format!("{VERIF}/replays/{name}");
    let _ = std::fs::create_dir_all(format!("{VERIF}/replays"));
    let _ = std::fs::write(&path, serde_json::to_string_pretty(&serde_json::json!({"property": prop, "message": msg, "case": case})).unwrap());
    println!("  {msg}");
    println!("VIOLATION property={prop} replay={path}");
    std::process::abort()
}
