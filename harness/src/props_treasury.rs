//! C12 (two-step, seven-day handover in both contracts) and C13 (treasury swaps and spending).

use crate::crypto::{bech32_decode, bech32_encode_const, sha256};
use crate::engine::{Engine, WEEK};
use crate::ops::Setup;
use crate::pb;
use crate::runner::*;
use crate::sim::{guarded, ErrKind};
use crate::store::{MemStorage, NoQuerier, SimApi};
use crate::world::acct;
use cosmwasm_std::{Addr, BankMsg, BlockInfo, Coin, ContractInfo, CosmosMsg, Deps, DepsMut, Env, MessageInfo, QuerierWrapper, Response, Timestamp, TransactionInfo, Uint128};
use proptest::prelude::*;
use serde::Serialize;
use staking::msg::ExecuteMsg as SMsg;
use treasury::error::ContractError as TErr;
use treasury::msg::{ConfigResponse as TConfig, ExecuteMsg as TMsg, InstantiateMsg as TInit, QueryMsg as TQuery};
use treasury::state::SwapRoute;

pub struct TreasuryBox {
    pub storage: MemStorage,
    pub api: SimApi,
    pub contract: String,
    pub time_s: u64,
    /// sub-second part of the block time
    pub sub_ns: u64,
}

impl TreasuryBox {
    pub fn env(&self) -> Env {
        Env {
            block: BlockInfo { height: 10, time: Timestamp::from_nanos(self.time_s * 1_000_000_000 + self.sub_ns), chain_id: "sim-1".into() },
            transaction: Some(TransactionInfo { index: 0 }),
            contract: ContractInfo { address: Addr::unchecked(&self.contract) },
        }
    }
    pub fn new(admin: &str, msg: TInit) -> Result<TreasuryBox, String> {
        let mut b = TreasuryBox {
            storage: MemStorage::default(),
            api: SimApi { prefix: "osmo".into() },
            contract: acct("osmo", "treasury-contract", 32),
            time_s: 1_700_000_000,
            sub_ns: 0,
        };
        let env = b.env();
        let q = NoQuerier;
        let api = b.api.clone();
        let info = MessageInfo { sender: Addr::unchecked(admin), funds: vec![] };
        let r = guarded(|| {
            let deps = DepsMut { storage: &mut b.storage, api: &api, querier: QuerierWrapper::new(&q) };
            treasury::contract::instantiate(deps, env, info, msg)
        });
        match r {
            Ok(Ok(_)) => Ok(b),
            Ok(Err(e)) => Err(format!("{e}")),
            Err(p) => Err(format!("PANIC {} at {}", p.message, p.location)),
        }
    }
    /// Executes with rollback on error (as the chain does).  Err(Err(panic_message)) on panic.
    pub fn exec(&mut self, sender: &str, msg: TMsg) -> Result<Response, Result<TErr, String>> {
        let snapshot = self.storage.clone();
        let env = self.env();
        let q = NoQuerier;
        let api = self.api.clone();
        let info = MessageInfo { sender: Addr::unchecked(sender), funds: vec![] };
        let r = guarded(|| {
            let deps = DepsMut { storage: &mut self.storage, api: &api, querier: QuerierWrapper::new(&q) };
            treasury::contract::execute(deps, env, info, msg)
        });
        match r {
            Ok(Ok(resp)) => Ok(resp),
            Ok(Err(e)) => {
                self.storage = snapshot;
                Err(Ok(e))
            }
            Err(p) => {
                self.storage = snapshot;
                Err(Err(format!("PANIC {} at {}", p.message, p.location)))
            }
        }
    }
    pub fn config(&self) -> Result<TConfig, String> {
        let q = NoQuerier;
        let deps = Deps { storage: &self.storage, api: &self.api, querier: QuerierWrapper::new(&q) };
        let env = self.env();
        match guarded(|| treasury::contract::query(deps, env, TQuery::Config {})) {
            Ok(Ok(b)) => cosmwasm_std::from_json(&b).map_err(|e| e.to_string()),
            Ok(Err(e)) => Err(e.to_string()),
            Err(p) => Err(format!("PANIC {} at {}", p.message, p.location)),
        }
    }
}

// ------------------------------------------------------------------ C12

#[derive(Clone, Debug, Serialize, serde::Deserialize)]
pub enum OwnStep {
    /// principal i nominates principal j
    Nominate(u8, u8),
    Revoke(u8),
    Accept(u8),
    /// admin-only probe by principal i
    Probe(u8),
    /// advance the clock: 0..=2 => to (earliest-1, earliest, earliest+1); 3 => +1s; 4 => +1 day; 5 => +8 days
    Clock(u8),
    /// set the sub-second part of the block time (forward only: a smaller value lands in the next second)
    Phase(u32),
    /// the treasury is upgraded (stored version made older, then `migrate`): a migration must not touch the handover
    Migrate,
}

pub fn own_steps() -> BoxedStrategy<Vec<OwnStep>> {
    let who = || 0u8..5;
    let step = prop_oneof![
        4 => (prop_oneof![4 => Just(0u8), 1 => who()], who()).prop_map(|(a, b)| OwnStep::Nominate(a, b)),
        2 => prop_oneof![3 => Just(0u8), 1 => who()].prop_map(OwnStep::Revoke),
        6 => prop_oneof![2 => who(), 3 => Just(5u8)].prop_map(OwnStep::Accept),
        3 => prop_oneof![3 => who(), 1 => Just(5u8)].prop_map(OwnStep::Probe),
        7 => prop_oneof![3 => 0u8..3, 1 => 3u8..6].prop_map(OwnStep::Clock),
        4 => prop_oneof![Just(1u32), Just(999_999_999u32), 0u32..1_000_000_000].prop_map(OwnStep::Phase),
        2 => Just(OwnStep::Migrate),
    ];
    proptest::collection::vec(step, 4..40).boxed()
}

struct OwnModel {
    admin: String,
    nominee: Option<String>,
    earliest: Option<u64>,
}

/// Principal 0 is "whoever is admin now"; 1..4 are fixed accounts (so former admins and earlier
/// nominees are exercised as the history moves the role around).
fn principal(m: &OwnModel, people: &[String], i: u8) -> String {
    if i == 0 {
        m.admin.clone()
    } else if i == 5 {
        m.nominee.clone().unwrap_or_else(|| people[1].clone())
    } else {
        people[(i as usize - 1) % people.len()].clone()
    }
}

pub fn check_own_case(steps: &[OwnStep], agg: &mut Agg) -> Result<(), String> {
    let people: Vec<String> = (0..4).map(|i| acct("osmo", &format!("own{i}"), 20)).collect();
    // ---- staking contract inside the simulator
    let setup = Setup {
        prefix: 0,
        same_prefix: false,
        oracle: false,
        treasury: false,
        fee_rate: 0,
        min_stake: 1,
        batch_period: 100,
        unbonding_period: 100,
        n_users: 2,
        n_monitors: 0,
        channel: 1,
        start_running: true,
    };
    let mut e = match Engine::try_new(&setup)? {
        Some(e) => e,
        None => return Ok(()),
    };
    let mut ms = OwnModel { admin: e.a.admin0.clone(), nominee: None, earliest: None };
    // ---- treasury contract
    let tadmin = acct("osmo", "admin0", 20);
    let mut tb = TreasuryBox::new(&tadmin, TInit { admin: None, trader: None, allowed_swap_routes: vec![] })?;
    let mut mt = OwnModel { admin: tadmin.clone(), nominee: None, earliest: None };
    tb.time_s = e.ch.now_s();
    let mut renominated = false;
    let mut subsecond = false;
    let mut boundary = false;
    let mut handovers = 0;
    let mut trace = String::new();
    for (idx, st) in steps.iter().enumerate() {
        let now = e.ch.now_s();
        trace.push_str(&format!("{:?}@{now};", st));
        match st {
            OwnStep::Clock(k) => {
                let target = match (k, ms.earliest) {
                    (0..=2, Some(t)) => (t + *k as u64).saturating_sub(1),
                    (3, _) => now + 1,
                    (4, _) => now + 86_400,
                    (5, _) => now + 8 * 86_400,
                    _ => now + 3600,
                };
                if target > now {
                    // the sub-second part is kept: deadlines are whole seconds, block times are not
                    e.ch.time_ns = target * 1_000_000_000 + tb.sub_ns;
                    tb.time_s = target;
                }
            }
            OwnStep::Migrate => {
                crate::props_c18::set_contract_info(&mut tb.storage, "treasury", "0.1.0");
                let env = tb.env();
                let api = tb.api.clone();
                let q = NoQuerier;
                let r = guarded(|| {
                    let deps = DepsMut { storage: &mut tb.storage, api: &api, querier: QuerierWrapper::new(&q) };
                    treasury::contract::migrate(deps, env, treasury::msg::MigrateMsg {})
                });
                match r {
                    Ok(Ok(_)) => {}
                    Ok(Err(e)) => return Err(format!("step {idx} treasury: migrate from 0.1.0 refused: {e}")),
                    Err(p) => return Err(format!("step {idx} treasury: migrate panicked: {} at {}", p.message, p.location)),
                }
                if mt.nominee.is_some() {
                    *agg.flags.entry("migrated_with_pending_nomination".into()).or_insert(0) += 1;
                }
            }
            OwnStep::Phase(ns) => {
                let ns = *ns as u64 % 1_000_000_000;
                let sec = if ns > tb.sub_ns { now } else { now + 1 };
                tb.time_s = sec;
                tb.sub_ns = ns;
                e.ch.time_ns = sec * 1_000_000_000 + ns;
                subsecond = true;
            }
            OwnStep::Nominate(i, j) => {
                let (s_from, s_to) = (principal(&ms, &people, *i), principal(&ms, &people, *j));
                let (t_from, t_to) = (principal(&mt, &people, *i), principal(&mt, &people, *j));
                let exp_s = s_from == ms.admin;
                let out = e.ch.execute(&s_from, &[], SMsg::TransferOwnership { new_owner: s_to.clone() });
                if out.ok != exp_s || out.panic.is_some() {
                    return Err(format!("step {idx} staking: nominate {s_to} by {s_from} (admin {}) -> ok={} err={:?}", ms.admin, out.ok, out.err));
                }
                if exp_s {
                    renominated |= ms.nominee.is_some();
                    ms.nominee = Some(s_to);
                    ms.earliest = Some(now + WEEK);
                }
                let exp_t = t_from == mt.admin;
                let r = tb.exec(&t_from, TMsg::TransferOwnership { new_owner: t_to.clone() });
                if r.is_ok() != exp_t || matches!(r, Err(Err(_))) {
                    return Err(format!("step {idx} treasury: nominate {t_to} by {t_from} (admin {}) -> {:?}", mt.admin, r.map(|_| ())));
                }
                if exp_t {
                    mt.nominee = Some(t_to);
                    mt.earliest = Some(now + WEEK);
                }
            }
            OwnStep::Revoke(i) => {
                let s_from = principal(&ms, &people, *i);
                let exp_s = s_from == ms.admin;
                let out = e.ch.execute(&s_from, &[], SMsg::RevokeOwnershipTransfer {});
                let exp_s = if exp_s && ms.nominee.is_none() { out.ok } else { exp_s };
                if out.ok != exp_s || out.panic.is_some() {
                    return Err(format!("step {idx} staking: revoke by {s_from} (admin {}) -> ok={} err={:?}", ms.admin, out.ok, out.err));
                }
                if exp_s {
                    renominated |= ms.nominee.is_some();
                    ms.nominee = None;
                    ms.earliest = None;
                }
                let t_from = principal(&mt, &people, *i);
                let exp_t = t_from == mt.admin;
                let r = tb.exec(&t_from, TMsg::RevokeOwnershipTransfer {});
                // revoking when nothing is pending may succeed (nothing to do) or be refused
                let exp_t = if exp_t && mt.nominee.is_none() { r.is_ok() } else { exp_t };
                if r.is_ok() != exp_t || matches!(r, Err(Err(_))) {
                    return Err(format!("step {idx} treasury: revoke by {t_from} (admin {}) -> {:?}", mt.admin, r.map(|_| ())));
                }
                if exp_t {
                    mt.nominee = None;
                    mt.earliest = None;
                }
            }
            OwnStep::Accept(i) => {
                let s_from = principal(&ms, &people, *i);
                let exp_s = ms.nominee.as_deref() == Some(s_from.as_str()) && ms.earliest.map(|t| now >= t).unwrap_or(false);
                if ms.nominee.as_deref() == Some(s_from.as_str()) && ms.earliest.map(|t| now == t || now + 1 == t).unwrap_or(false) {
                    boundary = true;
                }
                let out = e.ch.execute(&s_from, &[], SMsg::AcceptOwnership {});
                // in the very second of the deadline, once block times carry sub-second parts, an implementation that
                // keeps the deadline in nanoseconds may still refuse: the outcome is open there (and only there)
                let open_s = exp_s && subsecond && ms.earliest == Some(now);
                let exp_s = if open_s { out.ok } else { exp_s };
                if out.ok != exp_s || out.panic.is_some() {
                    return Err(format!(
                        "step {idx} staking: accept by {s_from} at {now} (nominee {:?}, earliest {:?}) -> ok={} err={:?}",
                        ms.nominee, ms.earliest, out.ok, out.err
                    ));
                }
                if exp_s {
                    ms.admin = s_from;
                    ms.nominee = None;
                    ms.earliest = None;
                    handovers += 1;
                }
                let t_from = principal(&mt, &people, *i);
                let exp_t = mt.nominee.as_deref() == Some(t_from.as_str()) && mt.earliest.map(|t| now >= t).unwrap_or(false);
                let r = tb.exec(&t_from, TMsg::AcceptOwnership {});
                let open_t = exp_t && subsecond && mt.earliest == Some(now);
                let exp_t = if open_t { r.is_ok() } else { exp_t };
                if r.is_ok() != exp_t || matches!(r, Err(Err(_))) {
                    return Err(format!(
                        "step {idx} treasury: accept by {t_from} at {now} (nominee {:?}, earliest {:?}) -> {:?}",
                        mt.nominee,
                        mt.earliest,
                        r.map(|_| ())
                    ));
                }
                if exp_t {
                    mt.admin = t_from;
                    mt.nominee = None;
                    mt.earliest = None;
                }
            }
            OwnStep::Probe(i) => {
                // staking: FeeWithdraw(0) fails with an authorization error exactly for non-admins
                let s_from = principal(&ms, &people, *i);
                let out = e.ch.execute(&s_from, &[], SMsg::FeeWithdraw { amount: Uint128::zero() });
                let auth_err = out.kind == Some(ErrKind::Auth);
                if auth_err == (s_from == ms.admin) || out.panic.is_some() {
                    return Err(format!("step {idx} staking: admin-only probe by {s_from} (admin {}) -> ok={} err={:?}", ms.admin, out.ok, out.err));
                }
                let t_from = principal(&mt, &people, *i);
                let r = tb.exec(&t_from, TMsg::UpdateConfig { trader: None, allowed_swap_routes: None });
                if r.is_ok() != (t_from == mt.admin) {
                    return Err(format!("step {idx} treasury: admin-only probe by {t_from} (admin {}) -> {:?}", mt.admin, r.map(|_| ())));
                }
            }
        }
        // observable admin / nominee after every step
        let cfg = tb.config()?;
        if cfg.admin.as_str() != mt.admin {
            return Err(format!("step {idx} treasury: Config.admin={} model {}", cfg.admin, mt.admin));
        }
        let st: staking::msg::StateResponse = e.ch.query(staking::msg::QueryMsg::State {})?;
        if st.pending_owner != ms.nominee.clone().unwrap_or_default() {
            return Err(format!("step {idx} staking: pending_owner={} model {:?}", st.pending_owner, ms.nominee));
        }
    }
    agg.evaluations += 1;
    if (renominated || handovers > 0) && boundary {
        let h = sha256(trace.as_bytes());
        agg.nontrivial.insert(u64::from_le_bytes(h[..8].try_into().unwrap()));
    }
    if boundary {
        *agg.flags.entry("accept_at_boundary".into()).or_insert(0) += 1;
    }
    if boundary && subsecond {
        *agg.flags.entry("accept_at_boundary_with_subsecond_block_times".into()).or_insert(0) += 1;
    }
    if renominated {
        *agg.flags.entry("renominated_or_revoked".into()).or_insert(0) += 1;
    }
    if handovers > 0 {
        *agg.flags.entry("handover_done".into()).or_insert(0) += 1;
    }
    if handovers > 1 {
        *agg.flags.entry("two_handovers".into()).or_insert(0) += 1;
    }
    Ok(())
}

pub fn check_c12(cases: u64, seed: u64) -> RunOutput {
    drive(own_steps, cases, seed, 12, |c: &Vec<OwnStep>, agg: &mut Agg| check_own_case(c, agg))
}

// ------------------------------------------------------------------ C13

/// Denoms of the generated routes.  Real denoms contain '/', so the table is closed under moving a
/// path segment from one side of a hop to the other (`RESLICE`): two *different* hops whose
/// "<in>/<out>" renderings coincide.
const DENOMS: [&str; 9] = ["uosmo", "utia", "uatom", "ibc/AA", "factory/x/y", "factory/x", "y/uosmo", "AA/utia", "ibc"];
const ND: usize = DENOMS.len();
/// (din, dout) pairs and their re-sliced partners
const RESLICE: [((u8, u8), (u8, u8)); 4] = [((4, 0), (5, 6)), ((5, 6), (4, 0)), ((3, 1), (8, 7)), ((8, 7), (3, 1))];

#[derive(Clone, Debug, Serialize, serde::Deserialize)]
pub struct RouteHop {
    pub pool: u64,
    pub din: u8,
    pub dout: u8,
}

#[derive(Clone, Debug, Serialize, serde::Deserialize)]
pub enum Candidate {
    Exact(u8),
    Prefix(u8, u8),
    Suffix(u8, u8),
    Reversed(u8),
    Concat(u8, u8),
    /// copy of route i with hop j edited in field f (0 pool, 1 denom in, 2 denom out)
    Edit(u8, u8, u8),
    Empty,
    Fresh(Vec<RouteHop>),
    /// an allowed route (searching from i) with one hop replaced by its re-sliced partner: same pools,
    /// same text when in and out denoms are joined with '/', different denoms
    Reslice(u8, u8),
}

#[derive(Clone, Debug, Serialize, serde::Deserialize)]
pub enum TOp {
    SwapIn { who: u8, cand: Candidate, coin_denom: Option<u8>, amount: u128, limit: u128 },
    SwapOut { who: u8, cand: Candidate, coin_denom: Option<u8>, amount: u128, limit: u128 },
    Spend { who: u8, denom: u8, amount: u128, receiver: u8, channel: Option<u8> },
    SetTrader { who: u8, trader: u8 },
    SetRoutes { who: u8, routes: Vec<Vec<RouteHop>> },
    /// one UpdateConfig carrying any combination of sections; `RSel::Resend` supplies the stored allow-list again
    Update { who: u8, trader: Option<u8>, routes: RSel },
}

#[derive(Clone, Debug, Serialize, serde::Deserialize)]
pub enum RSel {
    Keep,
    Resend,
    New(Vec<Vec<RouteHop>>),
}

#[derive(Clone, Debug, Serialize, serde::Deserialize)]
pub struct TCase {
    pub routes: Vec<Vec<RouteHop>>,
    pub explicit_admin: bool,
    pub explicit_trader: bool,
    pub ops: Vec<TOp>,
}

fn hop() -> impl Strategy<Value = RouteHop> {
    {
    let d = || prop_oneof![5 => 0u8..5, 2 => 5u8..9];
    prop_oneof![
        8 => (prop_oneof![1u64..4, any::<u64>()], d(), d()).prop_map(|(pool, din, dout)| RouteHop { pool, din, dout }),
        // hops whose denoms contain '/' on the side that faces the other denom
        2 => (1u64..4, 0usize..4).prop_map(|(pool, k)| RouteHop { pool, din: RESLICE[k].0 .0, dout: RESLICE[k].0 .1 }),
    ]
}
}
fn route() -> impl Strategy<Value = Vec<RouteHop>> {
    prop_oneof![15 => proptest::collection::vec(hop(), 1..5), 1 => Just(vec![])]
}
fn amount() -> impl Strategy<Value = u128> {
    prop_oneof![Just(0u128), Just(1u128), any::<u128>(), Just(u128::MAX), (1u128..1_000_000_000)]
}

pub fn tcase() -> BoxedStrategy<TCase> {
    let cand = prop_oneof![
        5 => (0u8..5).prop_map(Candidate::Exact),
        2 => (0u8..5, 1u8..4).prop_map(|(a, b)| Candidate::Prefix(a, b)),
        2 => (0u8..5, 1u8..4).prop_map(|(a, b)| Candidate::Suffix(a, b)),
        1 => (0u8..5).prop_map(Candidate::Reversed),
        2 => (0u8..5, 0u8..5).prop_map(|(a, b)| Candidate::Concat(a, b)),
        4 => (0u8..5, 0u8..4, 0u8..3).prop_map(|(a, b, c)| Candidate::Edit(a, b, c)),
        1 => Just(Candidate::Empty),
        1 => route().prop_map(Candidate::Fresh),
        2 => (0u8..5, 0u8..4).prop_map(|(a, b)| Candidate::Reslice(a, b)),
    ];
    let who = || prop_oneof![4 => Just(0u8), 3 => Just(1u8), 1 => Just(2u8), 1 => Just(3u8)];
    let coin_denom = || proptest::option::weighted(0.25, 0u8..5);
    let op = prop_oneof![
        6 => (who(), cand.clone(), coin_denom(), amount(), amount()).prop_map(|(who, cand, coin_denom, amount, limit)| TOp::SwapIn { who, cand, coin_denom, amount, limit }),
        6 => (who(), cand, coin_denom(), amount(), amount()).prop_map(|(who, cand, coin_denom, amount, limit)| TOp::SwapOut { who, cand, coin_denom, amount, limit }),
        4 => (who(), 0u8..5, amount(), 0u8..14, proptest::option::of(0u8..3)).prop_map(|(who, denom, amount, receiver, channel)| TOp::Spend { who, denom, amount, receiver, channel }),
        1 => (who(), 0u8..4).prop_map(|(who, trader)| TOp::SetTrader { who, trader }),
        1 => (who(), proptest::collection::vec(route(), 0..4)).prop_map(|(who, routes)| TOp::SetRoutes { who, routes }),
        2 => (
            prop_oneof![4 => Just(0u8), 1 => Just(1u8), 1 => Just(3u8)],
            proptest::option::weighted(0.7, 0u8..4),
            prop_oneof![1 => Just(RSel::Keep), 2 => Just(RSel::Resend), 2 => proptest::collection::vec(route(), 0..4).prop_map(RSel::New)]
        )
            .prop_map(|(who, trader, routes)| TOp::Update { who, trader, routes }),
    ];
    (proptest::collection::vec(route(), 0..6), any::<bool>(), any::<bool>(), proptest::collection::vec(op, 1..25))
        .prop_map(|(routes, explicit_admin, explicit_trader, ops)| TCase { routes, explicit_admin, explicit_trader, ops })
        .boxed()
}

fn to_routes(r: &[RouteHop]) -> Vec<SwapRoute> {
    r.iter()
        .map(|h| SwapRoute { pool_id: h.pool, token_in_denom: DENOMS[h.din as usize % ND].into(), token_out_denom: DENOMS[h.dout as usize % ND].into() })
        .collect()
}

fn same_route(a: &[RouteHop], b: &[RouteHop]) -> bool {
    a.len() == b.len() && a.iter().zip(b).all(|(x, y)| x.pool == y.pool && x.din as usize % ND == y.din as usize % ND && x.dout as usize % ND == y.dout as usize % ND)
}

fn build_candidate(c: &Candidate, allowed: &[Vec<RouteHop>]) -> (Vec<RouteHop>, bool) {
    // returns (route, derived_from_allowed)
    if allowed.is_empty() {
        return match c {
            Candidate::Fresh(r) => (r.clone(), false),
            Candidate::Empty => (vec![], false),
            _ => (vec![RouteHop { pool: 1, din: 0, dout: 1 }], false),
        };
    }
    let pick = |i: u8| allowed[i as usize % allowed.len()].clone();
    match c {
        Candidate::Exact(i) => (pick(*i), true),
        Candidate::Prefix(i, k) => {
            let r = pick(*i);
            let k = (*k as usize).min(r.len());
            (r[..k].to_vec(), true)
        }
        Candidate::Suffix(i, k) => {
            let r = pick(*i);
            let k = (*k as usize).min(r.len());
            (r[r.len() - k..].to_vec(), true)
        }
        Candidate::Reversed(i) => {
            let mut r = pick(*i);
            r.reverse();
            (r, true)
        }
        Candidate::Concat(i, j) => {
            let mut r = pick(*i);
            r.extend(pick(*j));
            (r, true)
        }
        Candidate::Edit(i, j, f) => {
            let mut r = pick(*i);
            if r.is_empty() {
                return (r, true);
            }
            let j = *j as usize % r.len();
            match f % 3 {
                0 => r[j].pool = r[j].pool.wrapping_add(1),
                1 => r[j].din = (r[j].din + 1) % ND as u8,
                _ => r[j].dout = (r[j].dout + 1) % ND as u8,
            }
            (r, true)
        }
        Candidate::Empty => (vec![], true),
        Candidate::Fresh(r) => (r.clone(), false),
        Candidate::Reslice(i, j) => {
            for k in 0..allowed.len() {
                let mut r = allowed[(*i as usize + k) % allowed.len()].clone();
                let hops: Vec<usize> = (0..r.len()).filter(|h| RESLICE.iter().any(|(a, _)| (r[*h].din % ND as u8, r[*h].dout % ND as u8) == *a)).collect();
                if !hops.is_empty() {
                    let h = hops[*j as usize % hops.len()];
                    let to = RESLICE.iter().find(|(a, _)| (r[h].din % ND as u8, r[h].dout % ND as u8) == *a).unwrap().1;
                    r[h].din = to.0;
                    r[h].dout = to.1;
                    return (r, true);
                }
            }
            build_candidate(&Candidate::Edit(*i, *j, 1), allowed)
        }
    }
}

fn receiver_addr(k: u8) -> String {
    match k % 14 {
        8 => acct("osmo1x", "recv", 20),
        9 => acct("celestia1valoper", "recv", 20),
        10 => acct("osmo", "recv", 20).to_uppercase(),
        11 => acct("celestia", "recv", 20).to_uppercase(),
        12 => acct("osmo1celestia", "recv", 32),
        13 => acct("celestia1", "recv", 20),
        _ => receiver_addr_basic(k),
    }
}

fn receiver_addr_basic(k: u8) -> String {
    match k % 8 {
        0 => acct("osmo", "recv", 20),
        1 => acct("celestia", "recv", 20),
        2 => acct("cosmos", "recv", 20),
        3 => {
            let mut s = acct("osmo", "recv", 20);
            let l = s.pop().unwrap();
            s.push(if l == 'q' { 'p' } else { 'q' });
            s
        }
        4 => {
            let mut s = acct("celestia", "recv", 20);
            let l = s.pop().unwrap();
            s.push(if l == 'q' { 'p' } else { 'q' });
            s
        }
        5 => acct("osmo", "recv32", 32),
        6 => "garbage".into(),
        _ => bech32_encode_const("celestia", &sha256(b"m")[..20], 0x2bc830a3),
    }
}

pub fn check_tcase(c: &TCase, agg: &mut Agg) -> Result<(), String> {
    let people: Vec<String> = (0..4).map(|i| acct("osmo", &format!("t{i}"), 20)).collect();
    // 0 = admin, 1 = trader, 2/3 strangers
    let instantiator = if c.explicit_admin && c.explicit_trader { people[3].clone() } else { people[0].clone() };
    let init = TInit {
        admin: if c.explicit_admin { Some(people[0].clone()) } else { None },
        trader: if c.explicit_trader { Some(people[1].clone()) } else { None },
        allowed_swap_routes: c.routes.iter().map(|r| to_routes(r)).collect(),
    };
    let mut admin = if c.explicit_admin { people[0].clone() } else { instantiator.clone() };
    let mut trader = if c.explicit_trader { people[1].clone() } else { instantiator.clone() };
    let mut tb = TreasuryBox::new(&instantiator, init)?;
    let mut allowed: Vec<Vec<RouteHop>> = c.routes.clone();
    let who = |i: u8, admin: &str, trader: &str| match i % 4 {
        0 => admin.to_string(),
        1 => trader.to_string(),
        k => people[k as usize].clone(),
    };
    let mut nontrivial = false;
    let mut trace = String::new();
    for (idx, op) in c.ops.iter().enumerate() {
        match op {
            TOp::SwapIn { who: w, cand, coin_denom, amount, limit } | TOp::SwapOut { who: w, cand, coin_denom, amount, limit } => {
                let exact_in = matches!(op, TOp::SwapIn { .. });
                let sender = who(*w, &admin, &trader);
                let (r, derived) = build_candidate(cand, &allowed);
                let listed = !r.is_empty() && allowed.iter().any(|a| same_route(a, &r));
                let end_denom = if r.is_empty() {
                    "none".to_string()
                } else if exact_in {
                    DENOMS[r[0].din as usize % ND].to_string()
                } else {
                    DENOMS[r[r.len() - 1].dout as usize % ND].to_string()
                };
                let coin_d = match coin_denom {
                    None => end_denom.clone(),
                    Some(d) => DENOMS[*d as usize % ND].to_string(),
                };
                let want_ok = sender == trader && listed && coin_d == end_denom;
                let coin = Coin::new(*amount, coin_d.clone());
                let routes = to_routes(&r);
                let msg = if exact_in {
                    TMsg::SwapExactAmountIn { routes: routes.clone(), token_in: coin.clone(), token_out_min_amount: *limit }
                } else {
                    TMsg::SwapExactAmountOut { routes: routes.clone(), token_out: coin.clone(), token_in_max_amount: *limit }
                };
                let before = tb.storage.clone();
                let res = tb.exec(&sender, msg);
                let what = format!("step {idx} swap exact_{} by {sender} (trader {trader}) route {:?} coin {amount}{coin_d} limit {limit}; allow-list {:?}", if exact_in { "in" } else { "out" }, r, allowed);
                trace.push_str(&what);
                match res {
                    Err(Err(p)) => return Err(format!("{what}: {p}")),
                    Err(Ok(e)) => {
                        // (a zero amount or a zero limit may be refused: the Osmosis module would refuse them anyway)
                        if want_ok && *amount > 0 && *limit > 0 {
                            return Err(format!("{what}: rejected ({e}) although trader, allow-listed route and matching end-point denom"));
                        }
                        if derived && !listed && sender == trader {
                            nontrivial = true;
                        }
                    }
                    Ok(resp) => {
                        if !want_ok {
                            return Err(format!("{what}: accepted (trader ok: {}, allow-listed: {listed}, end-point denom {end_denom})", sender == trader));
                        }
                        nontrivial = true;
                        // the configuration and the handover state are what C13/C12 speak about; additional bookkeeping
                        // (a namespace the pinned contract does not have) is not forbidden
                        let touched: Vec<String> = before.diff_keys(&tb.storage).iter().map(|k| crate::store::key_namespace(k)).filter(|n| crate::store::known_namespace(n)).collect();
                        if !touched.is_empty() {
                            return Err(format!("{what}: a swap changed contract storage: {:?}", touched));
                        }
                        if resp.messages.len() != 1 {
                            return Err(format!("{what}: {} messages emitted", resp.messages.len()));
                        }
                        let (url, value) = match &resp.messages[0].msg {
                            CosmosMsg::Stargate { type_url, value } => (type_url.clone(), value.to_vec()),
                            other => return Err(format!("{what}: unexpected message {:?}", other)),
                        };
                        let want_url = if exact_in { "/osmosis.poolmanager.v1beta1.MsgSwapExactAmountIn" } else { "/osmosis.poolmanager.v1beta1.MsgSwapExactAmountOut" };
                        if url != want_url {
                            return Err(format!("{what}: type url {url}"));
                        }
                        let m = pb::Msg::parse(&value).ok_or(format!("{what}: undecodable swap message"))?;
                        let hops = m.subs(2).ok_or("bad routes")?;
                        let got_hops: Vec<(u64, String)> = hops.iter().map(|h| (h.uint(1).unwrap_or(u64::MAX), h.string(2).unwrap_or_default())).collect();
                        let want_hops: Vec<(u64, String)> = r
                            .iter()
                            .map(|h| (h.pool, if exact_in { DENOMS[h.dout as usize % ND].to_string() } else { DENOMS[h.din as usize % ND].to_string() }))
                            .collect();
                        let (coin_field, limit_field) = if exact_in { (3, 4) } else { (4, 3) };
                        let got_coin = m.sub(coin_field).flatten().and_then(|c| pb::coin(&c));
                        let got_limit = m.string(limit_field).unwrap_or_default();
                        let ok = m.string(1).as_deref() == Some(tb.contract.as_str())
                            && got_hops == want_hops
                            && got_coin == Some(pb::PbCoin { denom: coin_d.clone(), amount: amount.to_string() })
                            && got_limit == limit.to_string()
                            && m.canonical(&[1, 2, 3, 4], &[2]);
                        if !ok {
                            return Err(format!("{what}: emitted message sender={:?} hops={:?} coin={:?} limit={got_limit}", m.string(1), got_hops, got_coin));
                        }
                    }
                }
            }
            TOp::Spend { who: w, denom, amount, receiver, channel } => {
                let sender = who(*w, &admin, &trader);
                let recv = receiver_addr(*receiver);
                let d = DENOMS[*denom as usize % ND];
                let chan = channel.map(|c| format!("channel-{c}"));
                let dec = bech32_decode(&recv);
                let hrp_ok = |p: &str| dec.as_ref().map(|d| d.hrp == p).unwrap_or(false);
                let want_ok = sender == admin && if chan.is_none() { hrp_ok("osmo") } else { hrp_ok("celestia") };
                let res = tb.exec(&sender, TMsg::SpendFunds { amount: Coin::new(*amount, d), receiver: recv.clone(), channel_id: chan.clone() });
                let what = format!("step {idx} spend {amount}{d} to {recv} via {chan:?} by {sender} (admin {admin})");
                trace.push_str(&what);
                match res {
                    Err(Err(p)) => return Err(format!("{what}: {p}")),
                    Err(Ok(e)) => {
                        // must succeed only for a non-zero amount to a plainly spelled address (a bank send of zero, or to
                        // an address with an unusual payload / checksum / case, may be refused)
                        let plain = dec.as_ref().map(|d| !d.upper && d.classic && matches!(d.payload().map(|p| p.len()), Some(20) | Some(32))).unwrap_or(false);
                        if want_ok && *amount > 0 && plain {
                            return Err(format!("{what}: rejected: {e}"));
                        }
                    }
                    Ok(resp) => {
                        if !want_ok {
                            return Err(format!("{what}: accepted"));
                        }
                        if resp.messages.len() != 1 {
                            return Err(format!("{what}: {} messages", resp.messages.len()));
                        }
                        match (&resp.messages[0].msg, &chan) {
                            (CosmosMsg::Bank(BankMsg::Send { to_address, amount: coins }), None) => {
                                if *to_address != recv || *coins != vec![Coin::new(*amount, d)] {
                                    return Err(format!("{what}: bank send {to_address} {:?}", coins));
                                }
                            }
                            (CosmosMsg::Stargate { type_url, value }, Some(ch)) => {
                                let m = pb::Msg::parse(value.as_slice()).ok_or("undecodable transfer")?;
                                let coin = m.sub(3).flatten().and_then(|c| pb::coin(&c));
                                let ok = type_url == "/ibc.applications.transfer.v1.MsgTransfer"
                                    && m.string(1).as_deref() == Some("transfer")
                                    && m.string(2).as_deref() == Some(ch.as_str())
                                    && coin == Some(pb::PbCoin { denom: d.to_string(), amount: amount.to_string() })
                                    && m.string(4).as_deref() == Some(tb.contract.as_str())
                                    && m.string(5).as_deref() == Some(recv.as_str())
                                    && m.uint(7).unwrap_or(0) > tb.time_s * 1_000_000_000;
                                if !ok {
                                    return Err(format!("{what}: transfer message {type_url} {:?}", m.0));
                                }
                            }
                            (other, _) => return Err(format!("{what}: unexpected message {:?}", other)),
                        }
                    }
                }
            }
            TOp::SetTrader { who: w, trader: t } => {
                let sender = who(*w, &admin, &trader);
                let new_trader = people[*t as usize % 4].clone();
                let res = tb.exec(&sender, TMsg::UpdateConfig { trader: Some(new_trader.clone()), allowed_swap_routes: None });
                let what = format!("step {idx} set trader {new_trader} by {sender} (admin {admin})");
                if res.is_ok() != (sender == admin) || matches!(res, Err(Err(_))) {
                    return Err(format!("{what}: {:?}", res.map(|_| ())));
                }
                if sender == admin {
                    trader = new_trader;
                }
            }
            TOp::SetRoutes { who: w, routes } => {
                let sender = who(*w, &admin, &trader);
                let res = tb.exec(&sender, TMsg::UpdateConfig { trader: None, allowed_swap_routes: Some(routes.iter().map(|r| to_routes(r)).collect()) });
                let what = format!("step {idx} set routes by {sender} (admin {admin})");
                if res.is_ok() != (sender == admin) || matches!(res, Err(Err(_))) {
                    return Err(format!("{what}: {:?}", res.map(|_| ())));
                }
                if sender == admin {
                    allowed = routes.clone();
                }
            }
            TOp::Update { who: w, trader: t, routes } => {
                let sender = who(*w, &admin, &trader);
                let new_trader = t.map(|t| people[t as usize % 4].clone());
                let new_routes: Option<Vec<Vec<RouteHop>>> = match routes {
                    RSel::Keep => None,
                    RSel::Resend => Some(allowed.clone()),
                    RSel::New(r) => Some(r.clone()),
                };
                let res = tb.exec(
                    &sender,
                    TMsg::UpdateConfig { trader: new_trader.clone(), allowed_swap_routes: new_routes.as_ref().map(|rs| rs.iter().map(|r| to_routes(r)).collect()) },
                );
                let what = format!("step {idx} update config trader={new_trader:?} routes={routes:?} by {sender} (admin {admin})");
                if res.is_ok() != (sender == admin) || matches!(res, Err(Err(_))) {
                    return Err(format!("{what}: {:?}", res.map(|_| ())));
                }
                if sender == admin {
                    if let Some(t) = new_trader {
                        if t != trader {
                            *agg.counters.entry("trader_rotated_in_combined_update".into()).or_insert(0) += 1;
                        }
                        trader = t;
                    }
                    if let Some(r) = new_routes {
                        allowed = r;
                    }
                }
            }
        }
        let cfg = tb.config()?;
        let want_routes: Vec<Vec<SwapRoute>> = allowed.iter().map(|r| to_routes(r)).collect();
        if cfg.admin.as_str() != admin || cfg.trader.as_str() != trader || cfg.allowed_swap_routes != want_routes {
            return Err(format!("step {idx}: Config {:?} differs from model admin={admin} trader={trader}", cfg));
        }
        let _ = &mut admin;
    }
    agg.evaluations += 1;
    if nontrivial {
        let h = sha256(trace.as_bytes());
        agg.nontrivial.insert(u64::from_le_bytes(h[..8].try_into().unwrap()));
    }
    Ok(())
}

pub fn check_c13(cases: u64, seed: u64) -> RunOutput {
    drive(tcase, cases, seed, 13, |c: &TCase, agg: &mut Agg| check_tcase(c, agg))
}
