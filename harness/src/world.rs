//! Address universe and instantiation of a simulated deployment from a `Setup`.

use crate::crypto::{bech32_encode, sha256};
use crate::ops::{Setup, PROTOCOL_PREFIXES};
use crate::sim::Chain;
use cosmwasm_std::Uint128;
use staking::msg::InstantiateMsg;
use staking::types::{UnsafeNativeChainConfig, UnsafeProtocolChainConfig, UnsafeProtocolFeeConfig};

pub fn acct(prefix: &str, label: &str, len: usize) -> String {
    bech32_encode(prefix, &sha256(label.as_bytes())[..len])
}

pub const STAKED_DENOM: &str = "ibc/C3E53D20BC7A4CC993B17C7971F8ECD06A433C10B6A96F4C4C3714F0624C56DA";
pub const OTHER_DENOM: &str = "ibc/0000000000000000000000000000000000000000000000000000000000000BAD";
pub const SUBDENOM: &str = "umilkTIA";
/// denoms on the native chain's ledger
pub const NATIVE_DENOM: &str = "utia";
pub const NATIVE_LST_VOUCHER: &str = "ibc/lst-voucher";

#[derive(Clone, Debug)]
pub struct Addrs {
    pub pprefix: String,
    pub nprefix: String,
    pub vprefix: String,
    pub contract: String,
    pub admin0: String,
    pub users: Vec<String>,
    pub monitors: Vec<String>,
    pub contract32: String,
    pub treasury: String,
    pub oracle: String,
    pub staker: String,
    pub collector: String,
    pub natives: Vec<String>,
    pub validators: Vec<String>,
    pub channel: String,
    pub other_channel: String,
    pub lst_denom: String,
}

impl Addrs {
    pub fn new(s: &Setup) -> Addrs {
        let pprefix = PROTOCOL_PREFIXES[s.prefix as usize % 3].to_string();
        let nprefix = if s.same_prefix { pprefix.clone() } else { "celestia".to_string() };
        let vprefix = format!("{nprefix}valoper");
        let contract = acct(&pprefix, "staking-contract", 32);
        let channel = format!("channel-{}", s.channel);
        let other_channel = format!("channel-{}", if s.channel == 7 { 8 } else { 7 });
        Addrs {
            admin0: acct(&pprefix, "admin0", 20),
            users: (0..s.n_users.clamp(1, 8)).map(|i| acct(&pprefix, &format!("user{i}"), 20)).collect(),
            monitors: (0..3).map(|i| acct(&pprefix, &format!("monitor{i}"), 20)).collect(),
            contract32: acct(&pprefix, "some-other-contract", 32),
            treasury: acct(&pprefix, "treasury", 32),
            oracle: acct(&pprefix, "oracle", 32),
            staker: acct(&nprefix, "staker", 20),
            collector: acct(&nprefix, "collector", 20),
            natives: (0..4).map(|i| acct(&nprefix, &format!("native{i}"), 20)).collect(),
            validators: (0..6).map(|i| acct(&vprefix, &format!("val{i}"), 20)).collect(),
            lst_denom: format!("factory/{contract}/{SUBDENOM}"),
            pprefix,
            nprefix,
            vprefix,
            contract,
            channel,
            other_channel,
        }
    }
}

pub fn instantiate_msg(s: &Setup, a: &Addrs) -> InstantiateMsg {
    InstantiateMsg {
        native_chain_config: UnsafeNativeChainConfig {
            account_address_prefix: a.nprefix.clone(),
            validator_address_prefix: a.vprefix.clone(),
            token_denom: NATIVE_DENOM.to_string(),
            validators: a.validators[..2].to_vec(),
            unbonding_period: s.unbonding_period,
            staker_address: a.staker.clone(),
            reward_collector_address: a.collector.clone(),
        },
        protocol_chain_config: UnsafeProtocolChainConfig {
            account_address_prefix: a.pprefix.clone(),
            ibc_token_denom: STAKED_DENOM.to_string(),
            ibc_channel_id: a.channel.clone(),
            minimum_liquid_stake_amount: Uint128::from(s.min_stake),
            oracle_address: if s.oracle { Some(a.oracle.clone()) } else { None },
        },
        protocol_fee_config: UnsafeProtocolFeeConfig {
            dao_treasury_fee: Uint128::from(s.fee_rate),
            treasury_address: if s.treasury { Some(a.treasury.clone()) } else { None },
        },
        liquid_stake_token_denom: SUBDENOM.to_string(),
        batch_period: s.batch_period,
        monitors: a.monitors[..(s.n_monitors.min(3) as usize)].to_vec(),
    }
}

pub fn new_chain(s: &Setup, a: &Addrs) -> Chain {
    let mut ch = Chain::new(&a.pprefix, &a.channel, &a.contract);
    if s.oracle {
        ch.oracle = Some(a.oracle.clone());
    }
    ch
}
