//! History engine: executes ops against the simulator, predicts each outcome with the reference
//! model, and compares model, contract queries and simulator ledgers after every step.
//! Every comparison carries the ids of the properties it belongs to.

use crate::model::*;
use crate::ops::*;
use crate::sim::{Chain, Effect, TxOutcome};
use crate::u256::{fmt_18, mul_div_floor, ratio_18};
use crate::world::*;
use cosmwasm_std::{Coin, Uint128};
use staking::msg::ExecuteMsg;
use std::collections::{BTreeMap, BTreeSet};

pub const CAP: u128 = 1_000_000_000_000_000_000_000_000_000; // 10^27
pub const WEEK: u64 = 604_800;

/// `now + period` is representable as a nanosecond timestamp (what the contract can store and report)
pub fn deadline_ok(now: u64, period: u64) -> bool {
    now.checked_add(period).map(|t| t.checked_mul(1_000_000_000).is_some()).unwrap_or(false)
}

#[derive(Clone, Debug)]
pub struct Violation {
    pub tags: Vec<&'static str>,
    pub step: usize,
    pub msg: String,
}

#[derive(Clone, Debug, Default)]
pub struct Stats {
    pub counters: BTreeMap<String, u64>,
    pub flags: BTreeSet<&'static str>,
    pub trace_hash: u64,
    pub steps: usize,
    pub remapped: u64,
}

impl Stats {
    pub fn bump(&mut self, k: &str) {
        *self.counters.entry(k.to_string()).or_insert(0) += 1;
    }
    pub fn get(&self, k: &str) -> u64 {
        self.counters.get(k).copied().unwrap_or(0)
    }
    pub fn mix(&mut self, s: &str) {
        // FNV-1a over the concrete executed op description
        let mut h = self.trace_hash ^ 0xcbf29ce484222325;
        for b in s.bytes() {
            h ^= b as u64;
            h = h.wrapping_mul(0x100000001b3);
        }
        self.trace_hash = h;
    }
}

/// What the model says about a transaction before it runs.
#[derive(Clone, Copy, Debug, PartialEq, Eq)]
pub enum Expect {
    Ok,
    Err,
    /// no property speaks: adopt the real outcome
    Any,
}

#[derive(Clone)]
pub struct Engine {
    pub ch: Chain,
    pub a: Addrs,
    pub m: Model,
    pub setup: Setup,
    pub stats: Stats,
    pub viol: Option<Violation>,
    pub step: usize,
    /// human-readable log of executed steps (kept short; used in replays)
    pub log: Vec<String>,
    pub keep_log: bool,
    /// last successful LST delivery packets to native recipients: seq -> recipient
    pub lst_packets: BTreeMap<u64, String>,
    /// expected native-chain voucher balances of LST per native account
    pub native_lst_expected: BTreeMap<String, u128>,
    /// staker ledger on the native chain, normalised (see DESIGN 2.1): may go negative
    pub staker_ledger: i128,
    /// staker / collector / channel were changed by UpdateConfig: cross-chain closure checks of C01 no longer apply
    pub identity_changed: bool,
    /// properties that speak about the effect of the op just executed on the State totals
    pub ctx_tags: Vec<&'static str>,
    /// when set, only comparisons tagged with this property end the history; the first failing
    /// comparison of any other property is remembered in `first_foreign` and the history goes on
    /// swept (unbacked) fees were paid out: the contract may hold less than it owes (admin-induced,
    /// DESIGN 1.1) and entitled payouts can fail for lack of funds
    pub solvency_void: bool,
    /// a block time with a non-zero sub-second part occurred: in the very second of a deadline an
    /// implementation that keeps nanosecond deadlines may still (correctly) refuse, so the outcome is open
    pub subsecond_seen: bool,
    pub wanted: Option<&'static str>,
    pub first_foreign: Option<Violation>,
}

pub type BankDelta = BTreeMap<(String, String), i128>;

impl Engine {
    pub fn new(setup: &Setup) -> Result<Engine, String> {
        Engine::new_for(setup, None)
    }

    pub fn new_for(setup: &Setup, wanted: Option<&'static str>) -> Result<Engine, String> {
        let a = Addrs::new(setup);
        let mut ch = new_chain(setup, &a);
        ch.oracle = Some(a.oracle.clone());
        let msg = instantiate_msg(setup, &a);
        let monitors = msg.monitors.clone();
        let out = ch.instantiate(&a.admin0, msg);
        if !out.ok {
            // a typed rejection of a period that cannot be added to the block time is not a defect
            let now = ch.now_s();
            if out.panic.is_none() && !deadline_ok(now, setup.batch_period) {
                return Err("benign: configuration with an unrepresentable deadline rejected".into());
            }
            return Err(format!("instantiate failed: {:?} panic={:?}", out.err, out.panic));
        }
        let mut batches = BTreeMap::new();
        batches.insert(
            1,
            MBatch {
                id: 1,
                total: 0,
                status: BStatus::Pending,
                due: Some(ch.now_s() + setup.batch_period),
                expected: None,
                received: None,
                reqs: BTreeMap::new(),
                paid: 0,
                withdrawn: 0,
                submitted_at: None,
            },
        );
        let m = Model {
            n: 0,
            l: 0,
            fees: 0,
            rewards: 0,
            supply_offset: 0,
            halted: true,
            admin: a.admin0.clone(),
            former_admin: None,
            nominee: None,
            superseded: None,
            earliest: None,
            batches,
            pending: 1,
            packets: BTreeMap::new(),
            cfg: MCfg {
                fee_rate: setup.fee_rate,
                treasury: if setup.treasury { Some(a.treasury.clone()) } else { None },
                oracle: if setup.oracle { Some(a.oracle.clone()) } else { None },
                min_stake: setup.min_stake as u128,
                batch_period: setup.batch_period,
                unbonding: setup.unbonding_period,
                monitors,
                validators: a.validators[..2].to_vec(),
                staker: a.staker.clone(),
                collector: a.collector.clone(),
                channel: a.channel.clone(),
                staked_denom: STAKED_DENOM.to_string(),
                lst_denom: a.lst_denom.clone(),
                pprefix: a.pprefix.clone(),
                nprefix: a.nprefix.clone(),
                vprefix: a.vprefix.clone(),
                native_token_denom: NATIVE_DENOM.to_string(),
            },
            forwarded: 0,
            set_aside: 0,
            swept: 0,
            rebase: 0,
            paid_back_expected: 0,
            fees_unbacked: false,
        };
        let mut e = Engine {
            ch,
            a,
            m,
            setup: setup.clone(),
            stats: Stats::default(),
            viol: None,
            step: 0,
            log: vec![],
            keep_log: false,
            lst_packets: BTreeMap::new(),
            native_lst_expected: BTreeMap::new(),
            staker_ledger: 0,
            identity_changed: false,
            ctx_tags: vec![],
            solvency_void: false,
            subsecond_seen: false,
            wanted,
            first_foreign: None,
        };
        // instantiate must have created the denom (C19) and left the contract halted (C10)
        let created = out.effects.iter().any(|f| matches!(f, Effect::CreateDenom { subdenom, denom, canonical, .. } if subdenom == SUBDENOM && *denom == e.a.lst_denom && *canonical));
        e.chk(&["C19"], created && out.effects.len() == 1, || format!("instantiate effects {:?}", out.effects));
        e.invariants();
        if setup.start_running && e.viol.is_none() {
            let admin = e.m.admin.clone();
            let out = e.ch.execute(
                &admin,
                &[],
                ExecuteMsg::ResumeContract {
                    total_native_token: Uint128::zero(),
                    total_liquid_stake_token: Uint128::zero(),
                    total_reward_amount: Uint128::zero(),
                },
            );
            if !out.ok {
                // an initial resume that fails is judged by the properties that speak about it
                e.chk(&["C10", "C15", "C16"], false, || format!("initial resume failed: {:?}", out.err));
            }
            e.m.halted = false;
            e.invariants();
        }
        Ok(e)
    }

    /// `Ok(None)` when the configuration was refused for a benign reason (see `new`)
    pub fn try_new(setup: &Setup) -> Result<Option<Engine>, String> {
        match Engine::new(setup) {
            Ok(e) => Ok(Some(e)),
            Err(m) if m.starts_with("benign:") => Ok(None),
            Err(m) => Err(m),
        }
    }

    pub fn chk(&mut self, tags: &[&'static str], cond: bool, msg: impl FnOnce() -> String) {
        if cond {
            return;
        }
        let relevant = self.wanted.map(|w| tags.contains(&w)).unwrap_or(true);
        if relevant {
            if self.viol.is_none() {
                self.viol = Some(Violation { tags: tags.to_vec(), step: self.step, msg: msg() });
            }
        } else if self.first_foreign.is_none() {
            self.first_foreign = Some(Violation { tags: tags.to_vec(), step: self.step, msg: msg() });
        }
    }

    pub fn note(&mut self, s: String) {
        self.stats.mix(&s);
        if self.keep_log {
            self.log.push(format!("#{} {}", self.step, s));
        }
    }

    // ------------------------------------------------------------ resolution helpers

    pub fn caller_addr(&self, c: &Caller) -> String {
        match c {
            Caller::User(i) => self.a.users[*i as usize % self.a.users.len()].clone(),
            Caller::Admin => self.m.admin.clone(),
            Caller::FormerAdmin => self.m.former_admin.clone().unwrap_or_else(|| self.a.users[0].clone()),
            Caller::Nominee => self.m.nominee.clone().unwrap_or_else(|| self.a.users[1 % self.a.users.len()].clone()),
            Caller::Monitor(i) => self.a.monitors[*i as usize % 3].clone(),
            Caller::Contract32 => self.a.contract32.clone(),
            Caller::StakerHook => crate::crypto::hooks_sender(&self.m.cfg.channel, &self.m.cfg.staker, &self.a.pprefix),
            Caller::RewardHook => crate::crypto::hooks_sender(&self.m.cfg.channel, &self.m.cfg.collector, &self.a.pprefix),
            Caller::SelfContract => self.a.contract.clone(),
        }
    }

    pub fn sci(m: u16, e: u8) -> u128 {
        let mut v = m as u128;
        for _ in 0..e {
            v = v.saturating_mul(10);
            if v >= CAP {
                return CAP;
            }
        }
        v.min(CAP)
    }

    pub fn ceil_div(a: u128, b: u128) -> u128 {
        if b == 0 {
            return 0;
        }
        a / b + if a % b == 0 { 0 } else { 1 }
    }

    /// stake amount from a selector (the payer is topped up to it by the faucet)
    pub fn stake_amount(&mut self, amt: &Amt) -> u128 {
        let (n, l) = (self.m.n, self.m.l);
        let v = match amt {
            Amt::Min => self.m.cfg.min_stake,
            Amt::MinMinus1 => self.m.cfg.min_stake.saturating_sub(1),
            Amt::One => 1,
            Amt::Sci(m, e) => Self::sci(*m, *e),
            Amt::All => n.max(1000),
            Amt::Frac(k) => (n / 8).saturating_mul(*k as u128).max(1),
            Amt::MintsOne => {
                if n == 0 || l == 0 {
                    1
                } else {
                    Self::ceil_div(n, l)
                }
            }
            Amt::MintsZero => {
                if n == 0 || l == 0 {
                    0
                } else {
                    Self::ceil_div(n, l).saturating_sub(1)
                }
            }
            Amt::OnBoundary(k, d) => {
                if n == 0 || l == 0 {
                    *k as u128
                } else {
                    mul_div_floor(*k as u128, n, l).map(|(q, r)| q + (r != 0) as u128).unwrap_or(1).saturating_add(*d as u128).saturating_sub(1)
                }
            }
        };
        if v > CAP {
            self.stats.remapped += 1;
            CAP
        } else {
            v
        }
    }

    pub fn lst_amount(&self, holder: &str, amt: &Amt) -> u128 {
        let bal = self.ch.balance(holder, &self.a.lst_denom);
        match amt {
            Amt::Min => self.m.cfg.min_stake.min(bal),
            Amt::MinMinus1 => self.m.cfg.min_stake.saturating_sub(1).min(bal),
            Amt::One => 1.min(bal),
            Amt::Sci(m, e) => Self::sci(*m, *e).min(bal),
            Amt::All => bal,
            Amt::Frac(k) => (bal / 8).saturating_mul(*k as u128).max(1.min(bal)),
            Amt::MintsOne => 1.min(bal),
            Amt::MintsZero => 2.min(bal),
            Amt::OnBoundary(k, _) => (*k as u128).min(bal),
        }
    }

    pub fn model_mint(&self, a: u128) -> Option<u128> {
        // after the sweep rule
        let (n, l) = if self.m.l == 0 && self.m.n != 0 { (0, 0) } else { (self.m.n, self.m.l) };
        if n == 0 {
            Some(a)
        } else {
            mul_div_floor(a, l, n).map(|x| x.0)
        }
    }

    pub fn rates(n: u128, l: u128) -> Option<(String, String)> {
        if l == 0 {
            return Some(("0".into(), "0".into()));
        }
        if n == 0 {
            return None;
        }
        Some((fmt_18(ratio_18(n, l)?), fmt_18(ratio_18(l, n)?)))
    }

    pub fn bank_snapshot(&self) -> crate::sim::Ledger {
        self.ch.w.bank.clone()
    }

    pub fn bank_delta(before: &crate::sim::Ledger, after: &crate::sim::Ledger) -> BankDelta {
        let mut d = BankDelta::new();
        for (k, v) in after {
            let b = before.get(k).copied().unwrap_or(0);
            if *v != b {
                d.insert(k.clone(), *v as i128 - b as i128);
            }
        }
        for (k, v) in before {
            if !after.contains_key(k) {
                d.insert(k.clone(), -(*v as i128));
            }
        }
        d
    }

    pub fn add_delta(d: &mut BankDelta, who: &str, denom: &str, x: i128) {
        if x == 0 {
            return;
        }
        let k = (who.to_string(), denom.to_string());
        let v = d.get(&k).copied().unwrap_or(0) + x;
        if v == 0 {
            d.remove(&k);
        } else {
            d.insert(k, v);
        }
    }

    pub fn coins(amount: u128, denom: &str) -> Vec<Coin> {
        vec![Coin::new(amount, denom)]
    }

    /// the configured protocol prefix is not the chain's own: addresses the generators build (under the
    /// chain prefix) are no longer valid for the contract, so success predictions are adopted
    pub fn prefix_foreign(&self) -> bool {
        self.m.cfg.pprefix != self.a.pprefix
    }

    pub fn oracle_live(&self) -> bool {
        self.m.cfg.oracle.is_some()
    }

    /// Would a plain message to the oracle abort the transaction?
    pub fn oracle_blocks(&self) -> bool {
        self.m.cfg.oracle.is_some() && self.ch.oracle_rejects
    }

    /// Compare the outcome with the expectation; on mismatch record a violation under `tags`.
    pub fn expect(&mut self, tags: &[&'static str], what: &str, exp: Expect, out: &TxOutcome) -> bool {
        if let Some(p) = &out.panic {
            let p = p.clone();
            self.chk(&["C16"], false, || format!("{what}: panic '{}' at {}", p.message, p.location));
            return false;
        }
        match exp {
            Expect::Ok => {
                self.chk(tags, out.ok, || format!("{what}: model expects success, got error {:?}", out.err));
                out.ok
            }
            Expect::Err => {
                self.chk(tags, !out.ok, || format!("{what}: model expects rejection, but it succeeded"));
                // on a mismatch the model keeps its own prediction (the step is not processed further)
                false
            }
            Expect::Any => out.ok,
        }
    }
}
