//! Hand-written 256-bit unsigned arithmetic used as the reference for every ratio the
//! contracts compute with `Uint128::multiply_ratio` / `Decimal::from_ratio`.
//! Deliberately naive (schoolbook limbs, bitwise long division) and self-tested at start-up.

#[derive(Clone, Copy, Debug, PartialEq, Eq, PartialOrd, Ord)]
pub struct U256 {
    pub hi: u128,
    pub lo: u128,
}

impl U256 {
    pub const ZERO: U256 = U256 { hi: 0, lo: 0 };
    pub fn from_u128(x: u128) -> Self {
        U256 { hi: 0, lo: x }
    }
    pub fn fits_u128(&self) -> bool {
        self.hi == 0
    }
    /// a * b, exact.
    pub fn mul(a: u128, b: u128) -> U256 {
        const M: u128 = (1u128 << 64) - 1;
        let (a1, a0) = (a >> 64, a & M);
        let (b1, b0) = (b >> 64, b & M);
        let p00 = a0 * b0;
        let p01 = a0 * b1;
        let p10 = a1 * b0;
        let p11 = a1 * b1;
        // lo = p00 + ((p01 + p10) << 64), carries into hi
        let mid = (p00 >> 64) + (p01 & M) + (p10 & M);
        let lo = (p00 & M) | ((mid & M) << 64);
        let hi = p11 + (p01 >> 64) + (p10 >> 64) + (mid >> 64);
        U256 { hi, lo }
    }
    pub fn add(self, o: U256) -> Option<U256> {
        let (lo, c) = self.lo.overflowing_add(o.lo);
        let hi = self.hi.checked_add(o.hi)?.checked_add(c as u128)?;
        Some(U256 { hi, lo })
    }
    fn bit(&self, i: u32) -> bool {
        if i >= 128 {
            (self.hi >> (i - 128)) & 1 == 1
        } else {
            (self.lo >> i) & 1 == 1
        }
    }
    fn set_bit(&mut self, i: u32) {
        if i >= 128 {
            self.hi |= 1u128 << (i - 128)
        } else {
            self.lo |= 1u128 << i
        }
    }
    /// (self / d, self % d); d must be non-zero.
    pub fn div_rem(self, d: u128) -> (U256, u128) {
        assert!(d != 0, "reference division by zero");
        let mut q = U256::ZERO;
        let mut rem: u128 = 0;
        for i in (0..256u32).rev() {
            let carry = rem >> 127 == 1;
            rem = (rem << 1) | (self.bit(i) as u128);
            if carry || rem >= d {
                rem = rem.wrapping_sub(d);
                q.set_bit(i);
            }
        }
        (q, rem)
    }
}

/// floor(a*b/c) if it fits in 128 bits, plus the remainder; None when not representable.
pub fn mul_div_floor(a: u128, b: u128, c: u128) -> Option<(u128, u128)> {
    let (q, r) = U256::mul(a, b).div_rem(c);
    if q.fits_u128() {
        Some((q.lo, r))
    } else {
        None
    }
}

/// 18-decimal fixed point floor(n * 10^18 / d) as cosmwasm `Decimal::from_ratio` defines it;
/// None when the result does not fit the 128-bit atomics.
pub fn ratio_18(n: u128, d: u128) -> Option<u128> {
    mul_div_floor(n, 1_000_000_000_000_000_000u128, d).map(|x| x.0)
}

/// Render 18-decimal atomics the way `Decimal`'s Display does ("1.5", "0", "0.000000000000000001").
pub fn fmt_18(atomics: u128) -> String {
    let one = 1_000_000_000_000_000_000u128;
    let whole = atomics / one;
    let frac = atomics % one;
    if frac == 0 {
        format!("{whole}")
    } else {
        let s = format!("{:018}", frac);
        format!("{whole}.{}", s.trim_end_matches('0'))
    }
}

pub fn self_test() {
    // small operands against native arithmetic
    let mut x: u64 = 0x9E3779B97F4A7C15;
    let mut next = || {
        x ^= x << 13;
        x ^= x >> 7;
        x ^= x << 17;
        x
    };
    for _ in 0..2000 {
        let a = next() as u128;
        let b = next() as u128;
        let c = (next() as u128 >> (next() % 60)) | 1;
        let p = U256::mul(a, b);
        assert_eq!(p.hi, 0);
        assert_eq!(p.lo, a * b);
        let (q, r) = p.div_rem(c);
        assert_eq!(q.lo, (a * b) / c);
        assert_eq!(r, (a * b) % c);
    }
    // large operands against algebraic identities: (a*b)/b == a rem 0 ; (a*b + r)/b
    for _ in 0..2000 {
        let a = ((next() as u128) << 64) | next() as u128;
        let b = (((next() as u128) << 64) | next() as u128) >> (next() % 100);
        if b == 0 {
            continue;
        }
        let p = U256::mul(a, b);
        let (q, r) = p.div_rem(b);
        assert_eq!((q, r), (U256::from_u128(a), 0));
        let r0 = (next() as u128) % b;
        if let Some(p2) = p.add(U256::from_u128(r0)) {
            let (q2, r2) = p2.div_rem(b);
            assert_eq!((q2, r2), (U256::from_u128(a), r0));
        }
    }
    assert_eq!(U256::mul(u128::MAX, u128::MAX), U256 { hi: u128::MAX - 1, lo: 1 });
    assert_eq!(fmt_18(1_500_000_000_000_000_000), "1.5");
    assert_eq!(fmt_18(0), "0");
    assert_eq!(fmt_18(1), "0.000000000000000001");
}
