//! Storage, Api and Querier implementations handed to the real contract entry points.

use crate::crypto;
use cosmwasm_std::{
    Addr, Api, Binary, CanonicalAddr, ContractResult, Order, Querier, QuerierResult, RecoverPubkeyError, Record,
    StdError, StdResult, Storage, SystemError, SystemResult, VerificationError,
};
use std::collections::BTreeMap;
use std::ops::Bound;

#[derive(Clone, Default, Debug, PartialEq, Eq)]
pub struct MemStorage {
    pub data: BTreeMap<Vec<u8>, Vec<u8>>,
}

impl Storage for MemStorage {
    fn get(&self, key: &[u8]) -> Option<Vec<u8>> {
        self.data.get(key).cloned()
    }
    fn range<'a>(
        &'a self,
        start: Option<&[u8]>,
        end: Option<&[u8]>,
        order: Order,
    ) -> Box<dyn Iterator<Item = Record> + 'a> {
        let lo = start.map_or(Bound::Unbounded, |s| Bound::Included(s.to_vec()));
        let hi = end.map_or(Bound::Unbounded, |e| Bound::Excluded(e.to_vec()));
        if let (Bound::Included(s), Bound::Excluded(e)) = (&lo, &hi) {
            if s >= e {
                return Box::new(std::iter::empty());
            }
        }
        let it = self.data.range((lo, hi)).map(|(k, v)| (k.clone(), v.clone()));
        match order {
            Order::Ascending => Box::new(it),
            Order::Descending => Box::new(it.rev()),
        }
    }
    fn set(&mut self, key: &[u8], value: &[u8]) {
        if value.is_empty() {
            panic!("TL;DR: Value must not be empty in Storage::set");
        }
        self.data.insert(key.to_vec(), value.to_vec());
    }
    fn remove(&mut self, key: &[u8]) {
        self.data.remove(key);
    }
}

impl MemStorage {
    /// Keys whose value differs between two stores (present/absent counts as differing).
    pub fn diff_keys(&self, other: &MemStorage) -> Vec<Vec<u8>> {
        let mut out = vec![];
        for (k, v) in &self.data {
            if other.data.get(k) != Some(v) {
                out.push(k.clone());
            }
        }
        for k in other.data.keys() {
            if !self.data.contains_key(k) {
                out.push(k.clone());
            }
        }
        out.sort();
        out
    }
}

/// Classify a raw storage key by cw-storage-plus namespace (DESIGN.md appendix D).
/// Storage namespaces of the pinned contracts (DESIGN Appendix D).  Raw-diff comparisons ("nothing else
/// changed") range over these: a namespace the pinned code does not have is additional bookkeeping, which
/// no property forbids.
pub const KNOWN_NAMESPACES: [&str; 11] = [
    "admin", "batches", "config", "contract_info", "ibc_waiting_for_reply", "inflight", "pending_batch_id", "state", "unstake_requests",
    "unstake_requests_by_user", "unstake_requests__by_user",
];

pub fn known_namespace(ns: &str) -> bool {
    KNOWN_NAMESPACES.contains(&ns)
}

pub fn key_namespace(key: &[u8]) -> String {
    if key.len() >= 2 {
        let n = u16::from_be_bytes([key[0], key[1]]) as usize;
        if n > 0 && key.len() >= 2 + n {
            if let Ok(s) = std::str::from_utf8(&key[2..2 + n]) {
                if s.bytes().all(|b| b.is_ascii_lowercase() || b == b'_') && s.len() > 3 {
                    return s.to_string();
                }
            }
        }
    }
    String::from_utf8_lossy(key).to_string()
}

/// Api whose address validation is real bech32 under the chain prefix (lower-case, classic
/// checksum, 20- or 32-byte payload) — what a Cosmos chain's `addr_validate` enforces.
#[derive(Clone, Debug)]
pub struct SimApi {
    pub prefix: String,
}

impl Api for SimApi {
    fn addr_validate(&self, human: &str) -> StdResult<Addr> {
        let d = crypto::bech32_decode(human).ok_or_else(|| StdError::generic_err("invalid bech32"))?;
        if d.upper || !d.classic || d.hrp != self.prefix {
            return Err(StdError::generic_err("invalid address for this chain"));
        }
        match d.payload() {
            Some(p) if p.len() == 20 || p.len() == 32 => Ok(Addr::unchecked(human)),
            _ => Err(StdError::generic_err("invalid address length")),
        }
    }
    fn addr_canonicalize(&self, human: &str) -> StdResult<CanonicalAddr> {
        self.addr_validate(human)?;
        let d = crypto::bech32_decode(human).unwrap();
        Ok(CanonicalAddr::from(Binary::from(d.payload().unwrap())))
    }
    fn addr_humanize(&self, canonical: &CanonicalAddr) -> StdResult<Addr> {
        Ok(Addr::unchecked(crypto::bech32_encode(&self.prefix, canonical.as_slice())))
    }
    fn secp256k1_verify(&self, _: &[u8], _: &[u8], _: &[u8]) -> Result<bool, VerificationError> {
        Err(VerificationError::unknown_err(0))
    }
    fn secp256k1_recover_pubkey(&self, _: &[u8], _: &[u8], _: u8) -> Result<Vec<u8>, RecoverPubkeyError> {
        Err(RecoverPubkeyError::unknown_err(0))
    }
    fn ed25519_verify(&self, _: &[u8], _: &[u8], _: &[u8]) -> Result<bool, VerificationError> {
        Err(VerificationError::unknown_err(0))
    }
    fn ed25519_batch_verify(&self, _: &[&[u8]], _: &[&[u8]], _: &[&[u8]]) -> Result<bool, VerificationError> {
        Err(VerificationError::unknown_err(0))
    }
    fn debug(&self, _message: &str) {}
}

/// Querier over a snapshot of the chain's bank ledger: answers `BankQuery::{Balance, AllBalances}`
/// (a contract may look at its own balances); everything else is an unknown request.
pub struct BankQuerier {
    pub bank: std::collections::BTreeMap<(String, String), u128>,
}

impl Querier for BankQuerier {
    fn raw_query(&self, bin_request: &[u8]) -> QuerierResult {
        use cosmwasm_std::{BankQuery, Binary, QueryRequest};
        let req: QueryRequest<cosmwasm_std::Empty> = match cosmwasm_std::from_json(bin_request) {
            Ok(r) => r,
            Err(e) => return SystemResult::Err(SystemError::InvalidRequest { error: e.to_string(), request: Binary::from(bin_request) }),
        };
        let coin = |d: &str, a: u128| serde_json::json!({"denom": d, "amount": a.to_string()});
        let v = match req {
            QueryRequest::Bank(BankQuery::Balance { address, denom }) => {
                let a = self.bank.get(&(address, denom.clone())).copied().unwrap_or(0);
                serde_json::json!({"amount": coin(&denom, a)})
            }
            QueryRequest::Bank(BankQuery::AllBalances { address }) => {
                let coins: Vec<serde_json::Value> = self.bank.iter().filter(|((acct, _), a)| *acct == address && **a > 0).map(|((_, d), a)| coin(d, *a)).collect();
                serde_json::json!({"amount": coins})
            }
            _ => return SystemResult::Err(SystemError::Unknown {}),
        };
        SystemResult::Ok(ContractResult::Ok(Binary::from(serde_json::to_vec(&v).unwrap())))
    }
}

pub struct NoQuerier;
impl Querier for NoQuerier {
    fn raw_query(&self, _bin_request: &[u8]) -> QuerierResult {
        SystemResult::Err(SystemError::Unknown {})
    }
}
#[allow(dead_code)]
fn _unused(_: ContractResult<()>) {}
