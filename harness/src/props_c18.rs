//! C18: migrations are version-gated and preserve every value-bearing record.
//! Pre-upgrade stores are written as raw JSON under raw cw-storage-plus keys (layouts copied from
//! the legacy struct definitions), never through the crate's own legacy types.

use crate::crypto::{bech32_encode, sha256};
use crate::engine::Engine;
use crate::ops::*;
use crate::runner::*;
use crate::sim::Effect;
use crate::store::{key_namespace, MemStorage};
use crate::world::*;
use proptest::prelude::*;
use serde::{Deserialize, Serialize};
use serde_json::json;
use staking::msg::{ConfigResponse, ExecuteMsg, MigrateMsg, QueryMsg};

#[derive(Clone, Debug, Serialize, Deserialize)]
pub struct LegacyPacket {
    pub key: u64,
    pub sequence: u64,
    pub amount: u128,
    /// 0 sent, 1 ack_success, 2 ack_failure, 3 timed_out
    pub status: u8,
}

#[derive(Clone, Debug, Serialize, Deserialize)]
pub struct MigCase {
    pub case: Case,
    /// 0 staking's name, 1 treasury's, 2 other
    pub name: u8,
    pub version: u8,
    /// 0: 0.4.18->0.4.20, 1: 0.4.20->1.0.0, 2: 1.0.0->1.1.0
    pub path: u8,
    pub packets: Vec<LegacyPacket>,
    pub replies: Vec<(u64, u128)>,
    /// legacy config knobs
    pub flag: bool,
    pub opt_mask: u8,
    /// 0 = correct prefixes in the 0.4.20->1.0.0 message, otherwise which one is wrong
    pub wrong_prefix: u8,
    pub keys_equal_sequence: bool,
}

pub const VERSIONS: [&str; 20] = [
    "0.4.18", "0.4.20", "1.0.0", "1.1.0", "2.0.0", "garbage", "1.0.0-rc1", "0.4.19", "1.0.1", "", "1.0.0+1", "1.0.0+build.5", "0.4.20+x",
    "0.4.18+a", " 1.0.0", "1.0.0 ", "v1.0.0", "1.0", "01.0.0", "0.4.20-rc.1",
];
const SOURCES: [&str; 3] = ["0.4.18", "0.4.20", "1.0.0"];

pub fn mig_case() -> BoxedStrategy<MigCase> {
    let mut p = Profile::base("C18");
    p.len = (0, 25);
    p.w_resolve = 4;
    p.w_recover = 0;
    p.w_stray = 0;
    p.fail_injection = false;
    let amount = prop_oneof![3 => 1u128..1_000_000_000, 2 => (1u16..1000, 0u8..25).prop_map(|(m, e)| Engine::sci(m, e)), 1 => any::<u128>(), 1 => Just(u128::MAX)];
    let pkt = (any::<u16>(), prop_oneof![4 => Just(0u64), 1 => 1u64..5, 1 => any::<u64>()], amount.clone(), 0u8..4)
        .prop_map(|(k, dk, amount, status)| LegacyPacket { key: k as u64 + 1, sequence: (k as u64 + 1).wrapping_add(dk), amount, status });
    (
        (case_strategy(&p), prop_oneof![8 => Just(0u8), 1 => Just(1u8), 1 => Just(2u8)], 0u8..20, 0u8..3),
        (
            // "any number of packets": mostly a few, sometimes several pages' worth
            prop_oneof![8 => proptest::collection::vec(pkt.clone(), 0..40), 1 => proptest::collection::vec(pkt.clone(), 40..130), 1 => proptest::collection::vec(pkt, 130..320)],
            // reply ids anywhere relative to the packet keys: below, among, above, and time-sized
            proptest::collection::vec((prop_oneof![3 => 0u64..70_000, 2 => any::<u32>().prop_map(|x| x as u64), 1 => any::<u64>()], amount), 0..6),
            any::<bool>(),
            any::<u8>(),
            prop_oneof![6 => Just(0u8), 1 => 1u8..4],
            proptest::bool::weighted(0.7),
        ),
    )
        .prop_map(|((case, name, version, path), (packets, replies, flag, opt_mask, wrong_prefix, keys_equal_sequence))| {
            // bias: half of the cases sit exactly on the gate (right name, right source version)
            MigCase { case, name, version, path, packets, replies, flag, opt_mask, wrong_prefix, keys_equal_sequence }
        })
        .prop_flat_map(|c| (Just(c), proptest::bool::weighted(0.6)))
        .prop_map(|(mut c, on_gate)| {
            if on_gate {
                c.name = 0;
                c.version = c.path;
            }
            c
        })
        .boxed()
}

fn map_key(ns: &str, k: u64) -> Vec<u8> {
    let mut v = (ns.len() as u16).to_be_bytes().to_vec();
    v.extend(ns.as_bytes());
    v.extend(k.to_be_bytes());
    v
}

fn status_str(s: u8) -> &'static str {
    match s % 4 {
        0 => "sent",
        1 => "ack_success",
        2 => "ack_failure",
        _ => "timed_out",
    }
}

pub fn set_contract_info(st: &mut MemStorage, name: &str, version: &str) {
    st.data.insert(b"contract_info".to_vec(), serde_json::to_vec(&json!({"contract": name, "version": version})).unwrap());
}

fn strip_ns(st: &mut MemStorage, ns: &str) {
    let keys: Vec<Vec<u8>> = st.data.keys().filter(|k| key_namespace(k) == ns).cloned().collect();
    for k in keys {
        st.data.remove(&k);
    }
}

fn diff_namespaces(a: &MemStorage, b: &MemStorage) -> Vec<String> {
    // namespaces the pinned code does not have are additional bookkeeping ("all other stored data untouched" is
    // about the data that exists)
    let mut v: Vec<String> = a.diff_keys(b).iter().map(|k| key_namespace(k)).filter(|n| crate::store::known_namespace(n)).collect();
    v.sort();
    v.dedup();
    v
}

pub fn check_mig_case(c: &MigCase, agg: &mut Agg) -> Result<(), String> {
    let mut e = match Engine::try_new(&c.case.setup)? {
        Some(e) => e,
        None => return Ok(()),
    };
    for op in &c.case.ops {
        if e.viol.is_some() {
            break;
        }
        e.run_op(op);
    }
    if e.viol.is_some() {
        agg.foreign_divergences += 1;
        return Ok(());
    }
    let name = ["staking", "treasury", "some-other-contract"][c.name as usize % 3];
    let version = VERSIONS[c.version as usize % VERSIONS.len()];
    let path = c.path % 3;
    let source = SOURCES[path as usize];
    let gate_open = name == "staking" && version == source;
    let cfg: ConfigResponse = e.ch.query(QueryMsg::Config {})?;
    let a = e.a.clone();
    set_contract_info(&mut e.ch.w.storage, name, version);
    let mut nontrivial = !gate_open && ((name == "staking") as u8 + (version == source) as u8 == 1 || (name == "staking" && SOURCES.contains(&version)));
    let msg;
    let wrong = |k: u8, good: &str| if c.wrong_prefix == k { format!("{good}x") } else { good.to_string() };
    // ---- lay out the pre-upgrade store for the chosen path
    let mut packets: Vec<LegacyPacket> = vec![];
    let mut legacy_cfg = serde_json::Value::Null;
    match path {
        2 => {
            strip_ns(&mut e.ch.w.storage, "inflight");
            strip_ns(&mut e.ch.w.storage, "ibc_waiting_for_reply");
            let mut seen = std::collections::BTreeSet::new();
            for p in &c.packets {
                let mut p = p.clone();
                if c.keys_equal_sequence {
                    // a store the 1.0.0 contract itself could have written: key = sequence, amounts in the C16 domain
                    p.sequence = p.key;
                    p.amount = p.amount % crate::engine::CAP + 1;
                }
                if !seen.insert(p.key) {
                    continue;
                }
                let v = json!({"sequence": p.sequence, "amount": p.amount.to_string(), "status": status_str(p.status)});
                e.ch.w.storage.data.insert(map_key("inflight", p.key), serde_json::to_vec(&v).unwrap());
                packets.push(p);
            }
            for (k, amt) in &c.replies {
                e.ch.w.storage.data.insert(map_key("ibc_waiting_for_reply", *k), serde_json::to_vec(&json!({"amount": amt.to_string()})).unwrap());
            }
            msg = MigrateMsg::V1_0_0ToV1_1_0 {};
        }
        _ => {
            // legacy flat configuration (0.4.18 / 0.4.20 layout)
            let treasury = a.treasury.clone();
            let mut v = json!({
                "native_token_denom": STAKED_DENOM,
                "liquid_stake_token_denom": a.lst_denom,
                "treasury_address": treasury,
                "validators": cfg.native_chain_config.validators,
                "batch_period": cfg.batch_period,
                "unbonding_period": cfg.native_chain_config.unbonding_period,
                "protocol_fee_config": {"dao_treasury_fee": cfg.protocol_fee_config.dao_treasury_fee},
                "multisig_address_config": {"staker_address": a.staker, "reward_collector_address": a.collector},
                "minimum_liquid_stake_amount": cfg.protocol_chain_config.minimum_liquid_stake_amount,
                "ibc_channel_id": a.channel,
                "stopped": cfg.stopped,
            });
            let o = v.as_object_mut().unwrap();
            o.insert("monitors".into(), if c.opt_mask & 1 != 0 { json!(cfg.monitors) } else { serde_json::Value::Null });
            o.insert("oracle_address".into(), if c.opt_mask & 2 != 0 { json!(a.oracle) } else { serde_json::Value::Null });
            if path == 0 {
                o.insert("operators".into(), if c.opt_mask & 4 != 0 { json!([a.users[0]]) } else { serde_json::Value::Null });
                o.insert("oracle_contract_address".into(), if c.opt_mask & 8 != 0 { json!(a.contract32) } else { serde_json::Value::Null });
                o.insert("oracle_contract_address_v2".into(), if c.opt_mask & 16 != 0 { json!(a.contract32) } else { serde_json::Value::Null });
                msg = MigrateMsg::V0_4_18ToV0_4_20 { send_fees_to_treasury: c.flag };
            } else {
                o.insert("send_fees_to_treasury".into(), json!(c.flag));
                msg = MigrateMsg::V0_4_20ToV1_0_0 {
                    native_account_address_prefix: wrong(1, &a.nprefix),
                    native_validator_address_prefix: wrong(2, &a.vprefix),
                    native_token_denom: NATIVE_DENOM.to_string(),
                    protocol_account_address_prefix: wrong(3, &a.pprefix),
                };
            }
            e.ch.w.storage.data.insert(b"config".to_vec(), serde_json::to_vec(&v).unwrap());
            legacy_cfg = v;
        }
    }
    let used = (wrong(1, &a.nprefix), wrong(2, &a.vprefix), wrong(3, &a.pprefix));
    let before = e.ch.w.clone();
    let out = e.ch.migrate(msg.clone());
    let what = format!("migrate {:?} with stored contract_info ({name}, {version:?})", msg);
    if let Some(p) = &out.panic {
        return Err(format!("{what}: panic {} at {}", p.message, p.location));
    }
    if !gate_open {
        if out.ok {
            return Err(format!("{what}: succeeded although the stored name/version is not the source of this path ({source})"));
        }
        if e.ch.w != before {
            return Err(format!("{what}: refused but the store changed"));
        }
        agg.evaluations += 1;
        *agg.counters.entry("gate.refused".into()).or_insert(0) += 1;
        if nontrivial {
            agg.nontrivial.insert(u64::from_le_bytes(sha256(format!("{:?}", (c.name, c.version, c.path)).as_bytes())[..8].try_into().unwrap()) ^ e.stats.trace_hash);
        }
        return Ok(());
    }
    // gate open: expected to succeed unless the message itself is wrong for the stored data
    let must_succeed = path != 1 || c.wrong_prefix == 0 || (c.wrong_prefix == 3 && c.opt_mask & 2 == 0 && !c.flag) || (c.wrong_prefix == 2 && cfg.native_chain_config.validators.is_empty());
    if !out.ok {
        if must_succeed {
            return Err(format!("{what}: failed: {:?}", out.err));
        }
        if e.ch.w != before {
            return Err(format!("{what}: refused but the store changed"));
        }
        agg.evaluations += 1;
        *agg.counters.entry("gate.open_but_message_rejected".into()).or_insert(0) += 1;
        return Ok(());
    }
    if path == 1 && c.wrong_prefix != 0 && !must_succeed {
        return Err(format!("{what}: accepted prefixes that do not match the stored addresses"));
    }
    *agg.counters.entry(format!("migrated.path{path}")).or_insert(0) += 1;
    let st = &e.ch.w.storage;
    let info: serde_json::Value = serde_json::from_slice(st.data.get(b"contract_info".as_slice()).ok_or("contract_info missing")?).map_err(|e| e.to_string())?;
    let changed = diff_namespaces(&before.storage, st);
    match path {
        2 => {
            if info != json!({"contract": "staking", "version": env!("STAKING_VERSION")}) {
                return Err(format!("{what}: recorded version {info}, crate version {}", env!("STAKING_VERSION")));
            }
            if changed.iter().any(|n| n != "inflight" && n != "ibc_waiting_for_reply" && n != "contract_info") || before.bank != e.ch.w.bank {
                return Err(format!("{what}: changed more than the packet tables and the version: {:?}", changed));
            }
            let n_inflight = st.data.keys().filter(|k| key_namespace(k) == "inflight").count();
            let n_replies = st.data.keys().filter(|k| key_namespace(k) == "ibc_waiting_for_reply").count();
            let want_replies: std::collections::BTreeMap<u64, u128> = c.replies.iter().cloned().collect();
            if n_inflight != packets.len() || n_replies != want_replies.len() {
                return Err(format!("{what}: {n_inflight} packets / {n_replies} pending replies after migration, {} / {} before", packets.len(), want_replies.len()));
            }
            for p in &packets {
                let raw = st.data.get(&map_key("inflight", p.key)).ok_or(format!("{what}: packet under key {} lost", p.key))?;
                let v: serde_json::Value = serde_json::from_slice(raw).map_err(|e| e.to_string())?;
                let want = json!({"sequence": p.sequence, "amount": {"denom": STAKED_DENOM, "amount": p.amount.to_string()}, "receiver": a.staker, "status": status_str(p.status)});
                if v != want {
                    return Err(format!("{what}: packet key {} migrated to {v}, expected {want}", p.key));
                }
            }
            for (k, amt) in &want_replies {
                let raw = st.data.get(&map_key("ibc_waiting_for_reply", *k)).ok_or(format!("{what}: pending reply {k} lost"))?;
                let v: serde_json::Value = serde_json::from_slice(raw).map_err(|e| e.to_string())?;
                let want = json!({"amount": {"denom": STAKED_DENOM, "amount": amt.to_string()}, "receiver": a.staker});
                if v != want {
                    return Err(format!("{what}: pending reply {k} migrated to {v}, expected {want}"));
                }
            }
            let refundable: Vec<&LegacyPacket> = packets.iter().filter(|p| p.status % 4 >= 2).collect();
            let inflight = packets.iter().filter(|p| p.status % 4 == 0).count();
            if refundable.len() >= 2 && inflight >= 1 {
                nontrivial = true;
            }
            // operability: what was recoverable before the upgrade is recoverable after it
            let total: Option<u128> = refundable.iter().try_fold(0u128, |acc, p| acc.checked_add(p.amount));
            let max_key = packets.iter().map(|p| p.key).max().unwrap_or(0);
            if c.keys_equal_sequence && !refundable.is_empty() && !c.replies.iter().any(|(k, _)| *k == max_key + 1) {
                if let Some(total) = total.filter(|t| *t <= crate::engine::CAP * 1000) {
                    e.ch.faucet(&a.contract, STAKED_DENOM, total);
                    e.ch.w.next_seq = packets.iter().map(|p| p.sequence).max().unwrap_or(0).saturating_add(1).max(e.ch.w.next_seq);
                    if e.ch.w.next_seq == u64::MAX {
                        agg.evaluations += 1;
                        return Ok(());
                    }
                    if cfg.stopped {
                        // recovery is not gated by the breaker
                    }
                    let out = e.ch.execute(&a.users[0], &[], ExecuteMsg::RecoverPendingIbcTransfers { paginated: None, selected_packets: None, receiver: None });
                    let ok = out.ok
                        && out.effects.len() == 1
                        && matches!(&out.effects[0], Effect::Transfer { receiver, denom, amount, .. } if *receiver == a.staker && denom == STAKED_DENOM && *amount == total);
                    if !ok {
                        return Err(format!("{what}: after the upgrade a recovery of the {} refundable packets (sum {total}) gives ok={} err={:?} effects={:?}", refundable.len(), out.ok, out.err, out.effects));
                    }
                    let left = e.ch.w.storage.data.keys().filter(|k| key_namespace(k) == "inflight").count();
                    if left != packets.len() - refundable.len() + 1 {
                        return Err(format!("{what}: after recovery {left} packets tracked, expected {}", packets.len() - refundable.len() + 1));
                    }
                    *agg.counters.entry("operability.recovery_after_upgrade".into()).or_insert(0) += 1;
                }
            }
        }
        0 => {
            if changed.iter().any(|n| n != "config" && n != "contract_info") {
                return Err(format!("{what}: changed more than config and version: {:?}", changed));
            }
            let v: serde_json::Value = serde_json::from_slice(st.data.get(b"config".as_slice()).ok_or("config missing")?).map_err(|e| e.to_string())?;
            let mut want = legacy_cfg.clone();
            let o = want.as_object_mut().unwrap();
            o.remove("operators");
            o.remove("oracle_contract_address");
            o.remove("oracle_contract_address_v2");
            o.insert("send_fees_to_treasury".into(), json!(c.flag));
            if v != want {
                return Err(format!("{what}: 0.4.20 config {v}\n  expected field-by-field copy {want}"));
            }
            nontrivial = true;
        }
        _ => {
            if changed.iter().any(|n| n != "config" && n != "contract_info") {
                return Err(format!("{what}: changed more than config and version: {:?}", changed));
            }
            let now: ConfigResponse = e.ch.query(QueryMsg::Config {})?;
            let monitors: Vec<String> = if c.opt_mask & 1 != 0 { cfg.monitors.iter().map(|m| m.to_string()).collect() } else { vec![] };
            let ok = now.native_chain_config.account_address_prefix == used.0
                && now.native_chain_config.validator_address_prefix == used.1
                && now.native_chain_config.token_denom == NATIVE_DENOM
                && now.native_chain_config.validators == cfg.native_chain_config.validators
                && now.native_chain_config.unbonding_period == cfg.native_chain_config.unbonding_period
                && now.native_chain_config.staker_address.as_str() == a.staker
                && now.native_chain_config.reward_collector_address.as_str() == a.collector
                && now.protocol_chain_config.account_address_prefix == used.2
                && now.protocol_chain_config.ibc_channel_id == a.channel
                && now.protocol_chain_config.ibc_token_denom == STAKED_DENOM
                && now.protocol_chain_config.minimum_liquid_stake_amount == cfg.protocol_chain_config.minimum_liquid_stake_amount
                && now.protocol_chain_config.oracle_address.as_ref().map(|x| x.to_string()) == if c.opt_mask & 2 != 0 { Some(a.oracle.clone()) } else { None }
                && now.protocol_fee_config.dao_treasury_fee == cfg.protocol_fee_config.dao_treasury_fee
                && now.protocol_fee_config.treasury_address.as_ref().map(|x| x.to_string()) == if c.flag { Some(a.treasury.clone()) } else { None }
                && now.liquid_stake_token_denom == a.lst_denom
                && now.batch_period == cfg.batch_period
                && now.monitors.iter().map(|m| m.to_string()).collect::<Vec<_>>() == monitors
                && now.stopped == cfg.stopped;
            if !ok {
                return Err(format!("{what}: translated config {:?}\n  legacy {legacy_cfg}", now));
            }
            nontrivial = true;
        }
    }
    agg.evaluations += 1;
    if nontrivial {
        agg.nontrivial.insert(u64::from_le_bytes(sha256(format!("{:?}", (&c.packets, &c.replies, c.path, c.flag, c.opt_mask)).as_bytes())[..8].try_into().unwrap()) ^ e.stats.trace_hash);
    }
    Ok(())
}

// ---- treasury gate

#[derive(Clone, Debug, Serialize, Deserialize)]
pub struct TGate {
    pub name: u8,
    pub version: u8,
    /// state the store is in when migrated: bit 0 = an ownership nomination is pending, bit 1 = routes and a trader are configured
    #[serde(default)]
    pub state: u8,
}

const TVERSIONS: [(&str, i8); 9] = [("0.4.19", -1), ("0.4.20", 0), ("0.4.21", 1), ("0.3.99", -1), ("1.0.0", 1), ("0.4.20-rc1", -1), ("garbage", 2), ("", 2), ("0.4", 2)];

pub fn check_tgate(c: &TGate, agg: &mut Agg) -> Result<(), String> {
    use crate::store::{NoQuerier, SimApi};
    use cosmwasm_std::{Addr, BlockInfo, ContractInfo, DepsMut, Env, QuerierWrapper, Timestamp};
    let name = ["treasury", "staking", "x"][c.name as usize % 3];
    let (version, ord) = TVERSIONS[c.version as usize % TVERSIONS.len()];
    let admin = bech32_encode("osmo", &sha256(b"t-admin")[..20]);
    let mut tb = crate::props_treasury::TreasuryBox::new(&admin, treasury::msg::InstantiateMsg { admin: None, trader: None, allowed_swap_routes: vec![] })?;
    if c.state & 1 != 0 {
        let nominee = bech32_encode("osmo", &sha256(b"t-nominee")[..20]);
        tb.exec(&admin, treasury::msg::ExecuteMsg::TransferOwnership { new_owner: nominee }).map_err(|e| format!("{:?}", e.map(|x| x.to_string())))?;
    }
    if c.state & 2 != 0 {
        let trader = bech32_encode("osmo", &sha256(b"t-trader")[..20]);
        let route = vec![treasury::state::SwapRoute { pool_id: 7, token_in_denom: "uosmo".into(), token_out_denom: "utia".into() }];
        tb.exec(&admin, treasury::msg::ExecuteMsg::UpdateConfig { trader: Some(trader), allowed_swap_routes: Some(vec![route]) }).map_err(|e| format!("{:?}", e.map(|x| x.to_string())))?;
    }
    set_contract_info(&mut tb.storage, name, version);
    let before = tb.storage.clone();
    let env = Env {
        block: BlockInfo { height: 1, time: Timestamp::from_seconds(tb.time_s + 86_400), chain_id: "x".into() },
        transaction: None,
        contract: ContractInfo { address: Addr::unchecked(&tb.contract) },
    };
    let api = SimApi { prefix: "osmo".into() };
    let q = NoQuerier;
    let r = crate::sim::guarded(|| {
        let deps = DepsMut { storage: &mut tb.storage, api: &api, querier: QuerierWrapper::new(&q) };
        treasury::contract::migrate(deps, env, treasury::msg::MigrateMsg {})
    });
    // the treasury crate's version is the workspace version 0.4.20 (checked against the manifest at build time)
    let want = name == "treasury" && ord == -1 && env!("TREASURY_VERSION") == "0.4.20";
    let what = format!("treasury migrate with stored ({name}, {version:?})");
    match r {
        Err(p) => return Err(format!("{what}: panic {}", p.message)),
        Ok(Ok(_)) => {
            if !want && env!("TREASURY_VERSION") == "0.4.20" {
                return Err(format!("{what}: succeeded"));
            }
            let ns = diff_namespaces(&before, &tb.storage);
            if ns.iter().any(|n| n != "contract_info") {
                return Err(format!("{what}: changed {:?}", ns));
            }
        }
        Ok(Err(e)) => {
            if want {
                return Err(format!("{what}: refused: {e}"));
            }
            if tb.storage != before {
                return Err(format!("{what}: refused but the store changed"));
            }
        }
    }
    agg.evaluations += 1;
    agg.nontrivial.insert(1000 + (c.state as u64 % 4) * 1000 + (c.name % 3) as u64 * 100 + (c.version as u64 % TVERSIONS.len() as u64));
    Ok(())
}

pub fn check_c18(cases: u64, seed: u64) -> RunOutput {
    let mut out = drive(mig_case, cases, seed, 18, |c: &MigCase, agg: &mut Agg| check_mig_case(c, agg));
    let t = drive(
        || (0u8..3, 0u8..9, 0u8..4).prop_map(|(name, version, state)| TGate { name, version, state }),
        160,
        seed,
        181,
        |c: &TGate, agg: &mut Agg| check_tgate(c, agg),
    );
    out.agg.absorb(&t.agg);
    out.failures.extend(t.failures);
    out
}
