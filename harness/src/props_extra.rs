//! Additional oracles: C15 differential (oracle configured vs not), C05 metamorphic withdrawal
//! order, C16 hostile single calls against reached states.

use crate::crypto::sha256;
use crate::engine::Engine;
use crate::model::BStatus;
use crate::ops::*;
use crate::pb;
use crate::runner::*;
use crate::world::*;
use cosmwasm_std::{Binary, Coin, Reply, SubMsgResponse, SubMsgResult, Uint128};
use proptest::prelude::*;
use serde::{Deserialize, Serialize};
use staking::msg::{ExecuteMsg, IBCLifecycleComplete, MigrateMsg, QueryMsg, SudoMsg};

// ------------------------------------------------------------------ C15 differential

pub fn c15_profile() -> Profile {
    let mut p = Profile::base("C15-diff");
    p.len = (15, 50);
    p.w_resume = 6;
    p.w_breaker = 2;
    p.w_config = 4;
    p
}

pub fn check_c15_diff(case: &Case, agg: &mut Agg) -> Result<(), String> {
    // the oracle-related config toggles are removed so that the two runs differ in exactly one respect
    let ops: Vec<Op> = case
        .ops
        .iter()
        .filter(|o| !matches!(o, Op::OracleToggle | Op::UpdateConfig { change: CfgChange::Oracle(_), .. } | Op::UpdateConfig { change: CfgChange::Identity, .. }))
        .cloned()
        .collect();
    let mut with = case.setup.clone();
    with.oracle = true;
    let mut without = case.setup.clone();
    without.oracle = false;
    let mut a = match Engine::try_new(&with)? {
        Some(e) => e,
        None => return Ok(()),
    };
    let mut b = match Engine::try_new(&without)? {
        Some(e) => e,
        None => return Ok(()),
    };
    a.keep_log = true;
    b.keep_log = true;
    let mut posts = 0;
    for (i, op) in ops.iter().enumerate() {
        a.run_op(op);
        b.run_op(op);
        for e in [&a, &b] {
            if let Some(v) = &e.viol {
                if v.tags.contains(&"C15") {
                    return Err(format!("step {}: {}", v.step, v.msg));
                }
            }
        }
        if a.viol.is_some() || b.viol.is_some() {
            agg.foreign_divergences += 1;
            return Ok(());
        }
        let (la, lb) = (a.log.last().cloned().unwrap_or_default(), b.log.last().cloned().unwrap_or_default());
        if la != lb {
            return Err(format!("step {i}: outcome differs with and without an oracle configured:\n  with:    {la}\n  without: {lb}"));
        }
        posts = a.ch.w.oracle_posts;
        if b.ch.w.oracle_posts != 0 {
            return Err(format!("step {i}: {} messages posted although no oracle is configured", b.ch.w.oracle_posts));
        }
        let mut wa = a.ch.w.clone();
        let mut wb = b.ch.w.clone();
        wa.oracle_posts = 0;
        wb.oracle_posts = 0;
        let strip = |st: &mut crate::store::MemStorage| {
            if let Some(raw) = st.data.get(b"config".as_slice()).cloned() {
                let mut v: serde_json::Value = serde_json::from_slice(&raw).unwrap_or_default();
                v["protocol_chain_config"]["oracle_address"] = serde_json::Value::Null;
                st.data.insert(b"config".to_vec(), serde_json::to_vec(&v).unwrap());
            }
        };
        strip(&mut wa.storage);
        strip(&mut wb.storage);
        if wa != wb {
            let keys: Vec<String> = wa.storage.diff_keys(&wb.storage).iter().map(|k| crate::store::key_namespace(k)).collect();
            return Err(format!("step {i} ({}): state or ledgers differ between the run with and the run without an oracle: storage keys {:?}, bank equal: {}", la, keys, wa.bank == wb.bank));
        }
    }
    agg.add_stats(&a.stats, posts >= 2 && a.stats.flags.contains("stake_ok"));
    *agg.counters.entry("differential_pairs".into()).or_insert(0) += 1;
    Ok(())
}

pub fn run_c15_diff(cases: u64, seed: u64) -> RunOutput {
    let p = c15_profile();
    drive(|| case_strategy(&p), cases, seed, 151, |c: &Case, agg: &mut Agg| check_c15_diff(c, agg))
}

// ------------------------------------------------------------------ C05 metamorphic order independence

pub fn check_c05_perm(case: &Case, agg: &mut Agg) -> Result<(), String> {
    let mut e = match Engine::try_new(&case.setup)? {
        Some(e) => e,
        None => return Ok(()),
    };
    for op in &case.ops {
        if e.viol.is_some() {
            break;
        }
        e.run_op(op);
    }
    if let Some(v) = &e.viol {
        if v.tags.contains(&"C05") {
            return Err(format!("step {}: {}", v.step, v.msg));
        }
        agg.foreign_divergences += 1;
        return Ok(());
    }
    if e.m.halted {
        return Ok(());
    }
    // swept (unbacked) fees were paid out by the admin: the contract may hold less than it owes (section 1.1), so
    // an entitled withdrawal can fail for lack of funds whatever the order
    if e.solvency_void || e.m.fees_unbacked {
        *agg.counters.entry("skipped_after_admin_sweep".into()).or_insert(0) += 1;
        return Ok(());
    }
    let mut compared = 0;
    let batches: Vec<_> = e.m.batches.values().filter(|b| b.status == BStatus::Received && b.reqs.len() >= 2).cloned().collect();
    for b in batches {
        let users: Vec<String> = b.reqs.keys().cloned().collect();
        let mut orders = vec![users.clone()];
        let mut rev = users.clone();
        rev.reverse();
        orders.push(rev);
        let mut rot = users.clone();
        rot.rotate_left(1);
        orders.push(rot);
        let mut results: Vec<Vec<(String, u128)>> = vec![];
        for ord in &orders {
            let mut x = e.clone();
            let mut paid = vec![];
            for u in ord {
                let before = x.ch.balance(u, STAKED_DENOM);
                let out = x.ch.execute(u, &[], ExecuteMsg::Withdraw { batch_id: b.id });
                if !out.ok {
                    if x.oracle_blocks() {
                        return Ok(());
                    }
                    return Err(format!("batch {}: entitled withdrawal by {u} failed in order {:?}: {:?}", b.id, ord, out.err));
                }
                paid.push((u.clone(), x.ch.balance(u, STAKED_DENOM) - before));
                // second attempt must fail and pay nothing
                let again = x.ch.execute(u, &[], ExecuteMsg::Withdraw { batch_id: b.id });
                if again.ok {
                    return Err(format!("batch {}: {u} withdrew twice", b.id));
                }
            }
            paid.sort();
            let total: u128 = paid.iter().map(|p| p.1).sum();
            if total > b.received.unwrap_or(0) - b.paid {
                return Err(format!("batch {}: payouts {total} exceed what is left of the received amount", b.id));
            }
            results.push(paid);
        }
        if results.iter().any(|r| *r != results[0]) {
            return Err(format!("batch {}: payouts depend on the withdrawal order: {:?}", b.id, results));
        }
        compared += 1;
    }
    agg.add_stats(&e.stats, compared > 0);
    *agg.counters.entry("batches_permuted".into()).or_insert(0) += compared;
    Ok(())
}

pub fn run_c05_perm(cases: u64, seed: u64, profile: &Profile) -> RunOutput {
    drive(|| case_strategy(profile), cases, seed, 51, |c: &Case, agg: &mut Agg| check_c05_perm(c, agg))
}

// ------------------------------------------------------------------ C16 hostile single calls

#[derive(Clone, Debug, Serialize, Deserialize)]
pub enum Hostile {
    Reply { id_sel: u8, kind: u8, seq: u64 },
    Sudo { channel: u8, seq: u64, kind: u8 },
    Exec { who: u8, msg: u8, a: u64, b: u128, funds: u8 },
    Query { msg: u8, a: u64, b: u32 },
    Migrate { path: u8, version: u8, name: u8 },
    Json { msg: u8, at: u16, byte: u8 },
}

#[derive(Clone, Debug, Serialize, Deserialize)]
pub struct HostileCase {
    pub case: Case,
    pub calls: Vec<Hostile>,
}

pub fn hostile_case(p: &Profile) -> BoxedStrategy<HostileCase> {
    let big = || prop_oneof![Just(0u64), Just(1u64), Just(u64::MAX), Just(u64::MAX - 1), any::<u64>(), 0u64..50];
    let big128 = || prop_oneof![Just(0u128), Just(1u128), Just(u128::MAX), any::<u128>(), 0u128..1_000_000, Just(crate::engine::CAP)];
    let call = prop_oneof![
        3 => (any::<u8>(), 0u8..6, big()).prop_map(|(id_sel, kind, seq)| Hostile::Reply { id_sel, kind, seq }),
        2 => (0u8..3, big(), 0u8..3).prop_map(|(channel, seq, kind)| Hostile::Sudo { channel, seq, kind }),
        8 => (0u8..10, 0u8..17, big(), big128(), 0u8..6).prop_map(|(who, msg, a, b, funds)| Hostile::Exec { who, msg, a, b, funds }),
        4 => (0u8..11, big(), prop_oneof![Just(0u32), Just(1u32), Just(u32::MAX), 0u32..20]).prop_map(|(msg, a, b)| Hostile::Query { msg, a, b }),
        1 => (0u8..3, 0u8..20, 0u8..3).prop_map(|(path, version, name)| Hostile::Migrate { path, version, name }),
        3 => (0u8..17, any::<u16>(), any::<u8>()).prop_map(|(msg, at, byte)| Hostile::Json { msg, at, byte }),
    ];
    (case_strategy(p), proptest::collection::vec(call, 5..40)).prop_map(|(case, calls)| HostileCase { case, calls }).boxed()
}

fn exec_msg(e: &Engine, k: u8, a: u64, b: u128) -> ExecuteMsg {
    let addr = |i: u64| match i % 5 {
        0 => e.a.users[0].clone(),
        1 => e.a.natives[0].clone(),
        2 => e.a.contract.clone(),
        3 => String::new(),
        _ => "x".repeat((i % 200) as usize),
    };
    let addr = |i: u64| if i % 7 == 6 { e.odd_addr((i / 7) as u8) } else { addr(i) };
    match k % 17 {
        0 => ExecuteMsg::LiquidStake { mint_to: if a % 2 == 0 { Some(addr(a / 2)) } else { None }, transfer_to_native_chain: Some(a % 3 == 0), expected_mint_amount: Some(Uint128::new(b)) },
        1 => ExecuteMsg::LiquidUnstake {},
        2 => ExecuteMsg::SubmitBatch {},
        3 => ExecuteMsg::Withdraw { batch_id: a },
        4 => ExecuteMsg::AddValidator { new_validator: addr(a) },
        5 => ExecuteMsg::RemoveValidator { validator: addr(a) },
        6 => ExecuteMsg::TransferOwnership { new_owner: addr(a) },
        7 => ExecuteMsg::AcceptOwnership {},
        8 => ExecuteMsg::RevokeOwnershipTransfer {},
        9 => ExecuteMsg::UpdateConfig { native_chain_config: None, protocol_chain_config: None, protocol_fee_config: None, monitors: Some(vec![addr(a)]), batch_period: Some(a) },
        10 => ExecuteMsg::ReceiveRewards {},
        11 => ExecuteMsg::ReceiveUnstakedTokens { batch_id: a },
        12 => ExecuteMsg::CircuitBreaker {},
        13 => {
            // keep the resumed totals inside the stated exchange-rate domain
            let n = b % (crate::engine::CAP + 1);
            let l = if a % 4 == 0 { 0 } else { (n / (1 + (a % 900) as u128)).max(1).min(crate::engine::CAP) };
            let n = if l > 0 && (n == 0 || n > l * 1000) { l } else { n };
            ExecuteMsg::ResumeContract { total_native_token: Uint128::new(n), total_liquid_stake_token: Uint128::new(l), total_reward_amount: Uint128::new(b) }
        }
        14 => ExecuteMsg::RecoverPendingIbcTransfers { paginated: Some(a % 2 == 0), selected_packets: if a % 3 == 0 { Some(vec![a, a, 1, 2, u64::MAX]) } else { None }, receiver: if a % 5 == 0 { Some(addr(a / 5)) } else { None } },
        15 => ExecuteMsg::FeeWithdraw { amount: Uint128::new(b) },
        _ => ExecuteMsg::RecoverPendingIbcTransfers { paginated: None, selected_packets: Some(vec![]), receiver: None },
    }
}

pub fn check_hostile(c: &HostileCase, agg: &mut Agg) -> Result<(), String> {
    let mut e = match Engine::try_new(&c.case.setup)? {
        Some(e) => e,
        None => return Ok(()),
    };
    for op in &c.case.ops {
        if e.viol.is_some() {
            break;
        }
        e.run_op(op);
    }
    if let Some(v) = &e.viol {
        if v.tags.contains(&"C16") {
            return Err(format!("step {}: {}", v.step, v.msg));
        }
        agg.foreign_divergences += 1;
        return Ok(());
    }
    // totals outside the stated domain (possible only through an admin resume) are not probed
    if e.m.l > 0 && e.m.n == 0 {
        return Ok(());
    }
    let mut errs = 0;
    for (i, h) in c.calls.iter().enumerate() {
        let mut x = e.clone();
        let what = format!("hostile call {i} {:?}", h);
        let panic = match h {
            Hostile::Reply { id_sel, kind, seq } => {
                let id = match id_sel % 4 {
                    0 => *seq,
                    1 => x.ch.time_ns,
                    2 => 1,
                    _ => u64::MAX,
                };
                let mut data = vec![];
                pb::put_uint(&mut data, 1, *seq);
                let result = match kind % 6 {
                    0 => SubMsgResult::Ok(SubMsgResponse { events: vec![], data: None }),
                    1 => SubMsgResult::Ok(SubMsgResponse { events: vec![], data: Some(Binary::from(vec![0xff, 0xff, 0xff])) }),
                    2 => SubMsgResult::Ok(SubMsgResponse { events: vec![], data: Some(Binary::from(data)) }),
                    3 => SubMsgResult::Err("boom".into()),
                    4 => SubMsgResult::Ok(SubMsgResponse { events: vec![], data: Some(Binary::from(vec![])) }),
                    _ => SubMsgResult::Err(String::new()),
                };
                let out = x.ch.raw_reply(Reply { id, result });
                errs += (!out.ok) as u32;
                out.panic
            }
            Hostile::Sudo { channel, seq, kind } => {
                let ch = match channel % 3 {
                    0 => x.m.cfg.channel.clone(),
                    1 => String::new(),
                    _ => "channel-18446744073709551616".into(),
                };
                let msg = match kind % 3 {
                    0 => IBCLifecycleComplete::IBCAck { channel: ch, sequence: *seq, ack: "\u{0}".into(), success: true },
                    1 => IBCLifecycleComplete::IBCAck { channel: ch, sequence: *seq, ack: String::new(), success: false },
                    _ => IBCLifecycleComplete::IBCTimeout { channel: ch, sequence: *seq },
                };
                x.ch.sudo(SudoMsg::IBCLifecycleComplete(msg)).panic
            }
            Hostile::Exec { who, msg, a, b, funds } => {
                let callers = [Caller::Admin, Caller::User(0), Caller::User(1), Caller::StakerHook, Caller::RewardHook, Caller::Contract32, Caller::SelfContract, Caller::Monitor(0), Caller::Nominee, Caller::FormerAdmin];
                let sender = x.caller_addr(&callers[*who as usize % callers.len()]);
                let mut amt = (*b % (crate::engine::CAP + 1)).max(1);
                if msg % 17 == 10 {
                    // an authentic reward must keep the redemption rate inside the stated domain (<= 10^3)
                    amt = amt.min(x.m.l.saturating_mul(400).saturating_sub(x.m.n)).max(1);
                }
                let coins: Vec<Coin> = match funds % 6 {
                    0 => vec![],
                    1 => vec![Coin::new(amt, STAKED_DENOM)],
                    2 => vec![Coin::new(amt, x.a.lst_denom.clone())],
                    3 => vec![Coin::new(amt, STAKED_DENOM), Coin::new(amt, x.a.lst_denom.clone()), Coin::new(1u128, OTHER_DENOM)],
                    4 => vec![Coin::new(1u128, OTHER_DENOM)],
                    _ => vec![Coin::new(amt, STAKED_DENOM), Coin::new(amt, STAKED_DENOM)],
                };
                for c in &coins {
                    if c.denom != x.a.lst_denom {
                        x.ch.faucet(&sender, &c.denom, c.amount.u128());
                    }
                }
                let coins: Vec<Coin> = coins.into_iter().filter(|c| c.denom != x.a.lst_denom || x.ch.balance(&sender, &c.denom) >= c.amount.u128()).collect();
                let out = x.ch.execute(&sender, &coins, exec_msg(&x, *msg, *a, *b));
                errs += (!out.ok) as u32;
                if out.ok {
                    // the state reached by a successful hostile call must still answer every query
                    for q in [QueryMsg::State {}, QueryMsg::Config {}, QueryMsg::Batches { start_after: None, limit: None, status: None }, QueryMsg::PendingBatch {}] {
                        let in_domain = {
                            let st = &x.ch.w.storage;
                            let s: serde_json::Value = serde_json::from_slice(st.data.get(b"state".as_slice()).map(|v| v.as_slice()).unwrap_or(b"{}")).unwrap_or_default();
                            !(s["total_liquid_stake_token"] != "0" && s["total_native_token"] == "0")
                        };
                        if let (Err(p), true) = (x.ch.query_raw(q), in_domain) {
                            return Err(format!("{what}: afterwards a query panics: {} at {}", p.message, p.location));
                        }
                    }
                }
                out.panic
            }
            Hostile::Query { msg, a, b } => {
                let q = match msg % 11 {
                    0 => QueryMsg::Config {},
                    1 => QueryMsg::State {},
                    2 => QueryMsg::Batch { id: *a },
                    3 => QueryMsg::Batches { start_after: Some(*a), limit: Some(*b), status: None },
                    4 => QueryMsg::BatchesByIds { ids: vec![*a, 1, *a, u64::MAX] },
                    5 => QueryMsg::PendingBatch {},
                    6 => QueryMsg::UnstakeRequests { user: cosmwasm_std::Addr::unchecked("\u{0}".repeat((*a % 5) as usize)) },
                    7 => QueryMsg::AllUnstakeRequests { start_after: Some(*a), limit: Some(*b) },
                    8 => QueryMsg::AllUnstakeRequestsV2 { start_after: Some(*a), limit: Some(*b) },
                    9 => QueryMsg::IbcQueue { start_after: Some(*a), limit: Some(*b) },
                    _ => QueryMsg::IbcReplyQueue { start_after: Some(*a), limit: Some(*b) },
                };
                x.ch.query_raw(q).err()
            }
            Hostile::Migrate { path, version, name } => {
                let v = crate::props_c18::VERSIONS[*version as usize % crate::props_c18::VERSIONS.len()];
                let n = ["staking", "treasury", ""][*name as usize % 3];
                x.ch.w.storage.data.insert(b"contract_info".to_vec(), serde_json::to_vec(&serde_json::json!({"contract": n, "version": v})).unwrap());
                let msg = match path % 3 {
                    0 => MigrateMsg::V0_4_18ToV0_4_20 { send_fees_to_treasury: true },
                    1 => MigrateMsg::V0_4_20ToV1_0_0 {
                        native_account_address_prefix: x.a.nprefix.clone(),
                        native_validator_address_prefix: String::new(),
                        native_token_denom: "u".into(),
                        protocol_account_address_prefix: "\u{7f}".into(),
                    },
                    _ => MigrateMsg::V1_0_0ToV1_1_0 {},
                };
                x.ch.migrate(msg).panic
            }
            Hostile::Json { msg, at, byte } => {
                let m = exec_msg(&x, *msg, *at as u64, *byte as u128);
                let mut j = cosmwasm_std::to_json_vec(&m).map_err(|e| e.to_string())?;
                if !j.is_empty() {
                    let k = *at as usize % j.len();
                    match byte % 4 {
                        0 => j[k] = *byte,
                        1 => j.truncate(k),
                        2 => j.insert(k, *byte),
                        _ => {
                            j.remove(k);
                        }
                    }
                }
                crate::sim::guarded(|| {
                    let _ = cosmwasm_std::from_json::<ExecuteMsg>(&j);
                    let _ = cosmwasm_std::from_json::<QueryMsg>(&j);
                    let _ = cosmwasm_std::from_json::<SudoMsg>(&j);
                    let _ = cosmwasm_std::from_json::<MigrateMsg>(&j);
                    let _ = cosmwasm_std::from_json::<treasury::msg::ExecuteMsg>(&j);
                })
                .err()
            }
        };
        if let Some(p) = panic {
            return Err(format!("{what}: panic '{}' at {}", p.message, p.location));
        }
    }
    let h = sha256(format!("{}{:?}", e.stats.trace_hash, c.calls).as_bytes());
    agg.evaluations += 1;
    agg.steps += e.stats.steps as u64;
    *agg.counters.entry("hostile_calls".into()).or_insert(0) += c.calls.len() as u64;
    *agg.counters.entry("hostile_calls_returning_err".into()).or_insert(0) += errs as u64;
    if errs > 0 {
        agg.nontrivial.insert(u64::from_le_bytes(h[..8].try_into().unwrap()));
    }
    Ok(())
}

pub fn run_hostile(cases: u64, seed: u64, p: &Profile) -> RunOutput {
    drive(|| hostile_case(p), cases, seed, 161, |c: &HostileCase, agg: &mut Agg| check_hostile(c, agg))
}

// ------------------------------------------------------------------ C16: treasury entry points

/// The treasury op sequences of C13 and the handover sequences of C12, judged only for panics,
/// plus instantiate with arbitrary admin / trader strings.
pub fn run_treasury_hostile(cases: u64, seed: u64) -> RunOutput {
    let mut out = drive(crate::props_treasury::tcase, cases, seed, 162, |c: &crate::props_treasury::TCase, agg: &mut Agg| {
        let mut scratch = Agg::default();
        match crate::props_treasury::check_tcase(c, &mut scratch) {
            Err(m) if m.contains("PANIC") => Err(format!("treasury: {m}")),
            _ => {
                agg.evaluations += 1;
                *agg.counters.entry("treasury_sequences".into()).or_insert(0) += 1;
                agg.nontrivial.extend(scratch.nontrivial.iter());
                Ok(())
            }
        }
    });
    let o2 = drive(
        || ("[ -~]{0,70}", "[ -~]{0,70}", any::<bool>(), any::<bool>()),
        cases / 4 + 1,
        seed,
        163,
        |c: &(String, String, bool, bool), agg: &mut Agg| {
            let admin = crate::world::acct("osmo", "ta", 20);
            let msg = treasury::msg::InstantiateMsg {
                admin: if c.2 { Some(c.0.clone()) } else { None },
                trader: if c.3 { Some(c.1.clone()) } else { None },
                allowed_swap_routes: vec![vec![]],
            };
            match crate::props_treasury::TreasuryBox::new(&admin, msg) {
                Err(m) if m.contains("PANIC") => Err(format!("treasury instantiate(admin={:?}, trader={:?}): {m}", c.0, c.1)),
                Err(_) => {
                    agg.evaluations += 1;
                    agg.nontrivial.insert(crate::runner::fnv_pub(&format!("{:?}", c)));
                    Ok(())
                }
                Ok(tb) => {
                    agg.evaluations += 1;
                    match tb.config() {
                        Err(m) if m.contains("PANIC") => Err(format!("treasury Config query after instantiate: {m}")),
                        _ => Ok(()),
                    }
                }
            }
        },
    );
    out.agg.absorb(&o2.agg);
    out.failures.extend(o2.failures);
    // configuration messages (instantiate / UpdateConfig / validator changes) with field-level corruptions,
    // judged only for panics
    let o3 = drive(crate::props_config::cfg_case, cases, seed, 164, |c: &crate::props_config::CfgCase, agg: &mut Agg| {
        let mut scratch = Agg::default();
        match crate::props_config::check_cfg_case_panics(c, &mut scratch) {
            Err(m) => Err(format!("configuration message: {m}")),
            Ok(()) => {
                agg.evaluations += 1;
                *agg.counters.entry("config_messages".into()).or_insert(0) += 1;
                Ok(())
            }
        }
    });
    out.agg.absorb(&o3.agg);
    out.failures.extend(o3.failures);
    out
}
