//! One method per op kind: resolve selectors, predict with the model, execute, compare.

use crate::crypto::{bech32_decode, bech32_encode_const, hooks_sender, sha256};
use crate::engine::*;
use crate::model::*;
use crate::ops::*;
use crate::sim::{Effect, IbcOutcome, TxOutcome};
use crate::u256::mul_div_floor;
use crate::world::*;
use cosmwasm_std::{Coin, Uint128};
use staking::msg::{ExecuteMsg, IBCLifecycleComplete, SudoMsg};
use staking::types::{UnsafeNativeChainConfig, UnsafeProtocolChainConfig, UnsafeProtocolFeeConfig};

fn to_outcome(o: &Outcome) -> IbcOutcome {
    match o {
        Outcome::Ack => IbcOutcome::Ack,
        Outcome::ErrAck => IbcOutcome::ErrAck,
        Outcome::Timeout => IbcOutcome::Timeout,
    }
}

impl Engine {
    pub fn run_op(&mut self, op: &Op) {
        self.step += 1;
        self.stats.steps += 1;
        self.ctx_tags = match op {
            Op::Stake { .. } => vec!["C04"],
            Op::SubmitBatch { .. } => vec!["C04", "C06"],
            Op::DeliverRewards { .. } => vec!["C11"],
            Op::Resume { .. } => vec!["C10"],
            Op::FeeWithdraw { .. } => vec!["C11"],
            Op::Withdraw { .. } => vec!["C05"],
            Op::CircuitBreaker { .. } => vec!["C10"],
            _ => vec![],
        };
        match op {
            Op::Stake { user, amt, to, flag, exp, funds, fail } => self.do_stake(user, amt, to, *flag, exp, funds, *fail),
            Op::Unstake { user, amt, funds } => self.do_unstake(user, amt, funds),
            Op::SubmitBatch { user, align } => self.do_submit(user, *align),
            Op::Withdraw { user, batch } => self.do_withdraw(user, *batch),
            Op::DeliverUnstaked { batch, amt, who, other_channel, wrong_denom, align } => {
                self.do_deliver(*batch, amt, who, *other_channel, *wrong_denom, *align)
            }
            Op::DeliverRewards { amt, who, other_channel, wrong_denom, fail } => {
                self.do_rewards(amt, who, *other_channel, *wrong_denom, *fail)
            }
            Op::Resolve { pkt, outcome } => self.do_resolve(*pkt, outcome),
            Op::Stray { kind, sel } => self.do_stray(kind, *sel),
            Op::Recover { user, mode, fail } => self.do_recover(user, mode, *fail),
            Op::FeeWithdraw { user, amt } => self.do_fee_withdraw(user, amt),
            Op::CircuitBreaker { user } => self.do_breaker(user),
            Op::Resume { user, mode } => self.do_resume(user, mode),
            Op::UpdateConfig { user, change } => self.do_config(user, change),
            Op::Validator { user, add, sel } => self.do_validator(user, *add, *sel),
            Op::Ownership { user, act } => self.do_ownership(user, act),
            Op::Advance(t) => self.do_advance(t),
            Op::Burst(n) => {
                // n % 3: 0 => stakes to self, every new packet fails; 1 => stakes to one native recipient (two
                // packets each), every new packet fails; 2 => every new packet is acknowledged successfully
                // (older in-flight packets are left alone, so the distance between sequences grows)
                if !self.m.halted {
                    let mode = *n % 3;
                    for i in 0..*n {
                        if self.viol.is_some() {
                            break;
                        }
                        let before: Vec<u64> = self.m.packets.keys().copied().collect();
                        let to = if mode == 1 { Recip::Native(0) } else { Recip::Sender };
                        self.do_stake(&Caller::User(i), &Amt::Sci(1 + i as u16, 3), &to, None, &ExpSel::None, &Funds::Exact, None);
                        let new: Vec<u64> = self.m.packets.keys().copied().filter(|k| !before.contains(k)).collect();
                        for seq in new {
                            let inflight: Vec<u64> = self.m.packets.values().filter(|p| p.status == PStatus::Sent).map(|p| p.seq).collect();
                            if let Some(pos) = inflight.iter().position(|s| *s == seq) {
                                let hit = (0u8..16).find(|sel| ((*sel as usize) * inflight.len()) >> 4 == pos);
                                if let Some(sel) = hit {
                                    let o = if mode == 2 { Outcome::Ack } else if i % 2 == 0 { Outcome::ErrAck } else { Outcome::Timeout };
                                    self.do_resolve(sel, &o);
                                }
                            }
                        }
                    }
                    self.stats.flags.insert("burst");
                    let staker = self.m.cfg.staker.clone();
                    let mut per_receiver: std::collections::BTreeMap<(String, String), usize> = Default::default();
                    for p in self.m.refundable() {
                        *per_receiver.entry((p.receiver.clone(), p.denom.clone())).or_insert(0) += 1;
                    }
                    if per_receiver.values().any(|c| *c > 10) {
                        self.stats.flags.insert("more_than_10_refundable");
                    }
                    let _ = staker;
                }
                self.note(format!("burst {n}"));
            }
            Op::Outage { by, events, attempts } => {
                if !self.m.halted {
                    let who = if *by == 0 || self.m.cfg.monitors.is_empty() { Caller::Admin } else { Caller::Monitor((*by - 1) % self.m.cfg.monitors.len() as u8) };
                    self.do_breaker(&who);
                    if self.m.halted {
                        let inflight = self.m.packets.values().filter(|p| p.status == PStatus::Sent).count();
                        for (sel, o) in events {
                            if self.viol.is_some() {
                                break;
                            }
                            self.do_resolve(*sel, o);
                        }
                        if inflight > 0 && !events.is_empty() {
                            self.stats.flags.insert("ibc_outcome_while_halted");
                        }
                        for k in 0..*attempts {
                            if self.viol.is_some() {
                                break;
                            }
                            match k {
                                0 => self.do_stake(&Caller::User(k), &Amt::Sci(5, 4), &Recip::Sender, None, &ExpSel::None, &Funds::Exact, None),
                                1 => self.do_withdraw(&Caller::User(k), 0),
                                2 => self.do_submit(&Caller::User(k), 2),
                                3 => self.do_recover(&Caller::User(k), &RecMode::Plain, false),
                                // forced recovery of in-flight packets by a monitor / a user while halted: admin-only all the same
                                4 => self.do_recover(&Caller::Monitor(0), &RecMode::Selected(vec![1], false), false),
                                5 => self.do_recover(&Caller::User(k), &RecMode::Selected(vec![1, 0], false), false),
                                _ => self.do_recover(&Caller::Admin, &RecMode::Selected(vec![0], false), false),
                            }
                        }
                        if self.viol.is_none() {
                            self.do_resume(&Caller::Admin, &ResumeMode::Same);
                        }
                    }
                    self.stats.flags.insert("outage");
                }
                self.note("outage".into());
            }
            Op::Churn(n) => {
                if !self.m.halted {
                    for i in 0..*n {
                        if self.viol.is_some() {
                            break;
                        }
                        self.do_unstake(&Caller::User(i), &Amt::Frac(1), &Funds::Exact);
                        self.do_submit(&Caller::User(i), 2);
                    }
                    if self.m.batches.len() > 30 {
                        self.stats.flags.insert("more_than_30_batches");
                    }
                }
                self.note(format!("churn {n}"));
            }
            Op::Traffic(n) => {
                self.ch.background_traffic(*n as u64);
                self.note(format!("traffic {n}"));
            }
            Op::OracleToggle => {
                self.ch.oracle_rejects = !self.ch.oracle_rejects;
                self.note(format!("oracle_rejects={}", self.ch.oracle_rejects));
            }
            Op::Query(q) => self.do_query(q),
        }
        if self.viol.is_none() {
            self.invariants();
        }
    }

    /// valid checksum, right prefix, but 1 / 33 / 31-with-padding-bits / 0 data symbols
    pub fn odd_addr(&self, k: u8) -> String {
        let hrp = if k % 2 == 0 { self.m.cfg.nprefix.clone() } else { self.m.cfg.pprefix.clone() };
        let data: Vec<u8> = match (k / 2) % 4 {
            0 => vec![7],
            1 => (0..33).map(|i| (i * 7 + 3) as u8 % 32).collect(),
            2 => (0..32).map(|i| if i == 31 { 1 } else { (i * 5 + 1) as u8 % 32 }).collect(),
            _ => vec![],
        };
        crate::crypto::bech32_encode_data5(&hrp, &data)
    }

    fn bad_addr(&self, k: u8) -> String {
        let good = &self.a.users[0];
        match k % 6 {
            0 => {
                // damaged checksum: flip last char
                let mut s = good.clone();
                let last = s.pop().unwrap();
                s.push(if last == 'q' { 'p' } else { 'q' });
                s
            }
            1 => acct("cosmos", "stranger", 20),
            2 => "not-an-address".to_string(),
            3 => String::new(),
            4 => good.to_uppercase(),
            _ => bech32_encode_const(&self.a.pprefix, &sha256(b"m-variant")[..20], 0x2bc830a3),
        }
    }

    /// one OraclePost with the post-state rates iff an oracle is configured (C15)
    fn check_oracle(&mut self, what: &str, out: &TxOutcome, totals_changed: bool) {
        let posts: Vec<&Effect> = out.effects.iter().filter(|e| matches!(e, Effect::OraclePost { .. })).collect();
        match &self.m.cfg.oracle {
            None => {
                let n = posts.len();
                self.chk(&["C15"], n == 0, || format!("{what}: {n} oracle posts without an oracle configured"));
            }
            Some(oracle) => {
                if !totals_changed && posts.is_empty() {
                    return;
                }
                let n = posts.len();
                if n != 1 {
                    self.chk(&["C15"], false, || format!("{what}: expected exactly one oracle post, saw {n}"));
                    return;
                }
                if let Effect::OraclePost { oracle: o, sender, n_funds, json } = posts[0].clone() {
                    let want = Engine::rates(self.m.n, self.m.l);
                    let v: serde_json::Value = serde_json::from_str(&json).unwrap_or(serde_json::Value::Null);
                    let pr = &v["post_rates"];
                    let ok_shape = v.as_object().map(|o| o.len() == 1).unwrap_or(false)
                        && pr.as_object().map(|o| o.len() == 3).unwrap_or(false);
                    let oracle = oracle.clone();
                    let lst = self.a.lst_denom.clone();
                    let contract = self.a.contract.clone();
                    self.chk(&["C15"], o == oracle && sender == contract && n_funds == 0 && ok_shape, || {
                        format!("{what}: oracle post malformed: to={o} sender={sender} funds={n_funds} json={json}")
                    });
                    if let Some((red, pur)) = want {
                        let got = (
                            pr["redemption_rate"].as_str().unwrap_or("?").to_string(),
                            pr["purchase_rate"].as_str().unwrap_or("?").to_string(),
                            pr["denom"].as_str().unwrap_or("?").to_string(),
                        );
                        let (n, l) = (self.m.n, self.m.l);
                        self.chk(&["C15"], got == (red.clone(), pur.clone(), lst.clone()), || {
                            format!(
                                "{what}: oracle got (redemption,purchase,denom)={got:?}, post-transaction state N={n} L={l} gives ({red},{pur},{lst})"
                            )
                        });
                    }
                }
            }
        }
    }

    fn transfers<'a>(out: &'a TxOutcome) -> Vec<(u64, String, String, u128, String, u64, String)> {
        out.effects
            .iter()
            .filter_map(|e| match e {
                Effect::Transfer { seq, receiver, denom, amount, memo, timeout_ns, channel } => {
                    Some((*seq, receiver.clone(), denom.clone(), *amount, memo.clone(), *timeout_ns, channel.clone()))
                }
                _ => None,
            })
            .collect()
    }

    /// Register a transfer the contract must now be tracking; checks memo / timeout (C07).
    fn track(&mut self, what: &str, t: &(u64, String, String, u128, String, u64, String)) {
        let (seq, receiver, denom, amount, memo, timeout_ns, channel) = t.clone();
        let want_memo = format!("{{\"ibc_callback\":\"{}\"}}", self.a.contract);
        let now = self.ch.time_ns;
        let chan = self.m.cfg.channel.clone();
        self.chk(&["C07"], memo == want_memo && timeout_ns > now && channel == chan, || {
            format!("{what}: transfer #{seq} memo={memo} timeout={timeout_ns} now={now} channel={channel}")
        });
        self.m.packets.insert(seq, MPacket { seq, receiver, denom, amount, status: PStatus::Sent });
    }

    // ------------------------------------------------------------ Stake

    fn do_stake(&mut self, user: &Caller, amt: &Amt, to: &Recip, flag: Option<bool>, exp: &ExpSel, funds: &Funds, fail: Option<u8>) {
        let sender = self.caller_addr(user);
        let a = self.stake_amount(amt);
        let (mint_to, recip) = match to {
            Recip::Sender => (None, sender.clone()),
            Recip::User(i) => {
                let r = self.a.users[*i as usize % self.a.users.len()].clone();
                (Some(r.clone()), r)
            }
            Recip::Native(i) => {
                let r = self.a.natives[*i as usize % self.a.natives.len()].clone();
                (Some(r.clone()), r)
            }
            Recip::Staker => (Some(self.m.cfg.staker.clone()), self.m.cfg.staker.clone()),
            Recip::OddData(k) => {
                let r = self.odd_addr(*k);
                (Some(r.clone()), r)
            }
            Recip::Contract32 => (Some(self.a.contract32.clone()), self.a.contract32.clone()),
            Recip::Bad(k) => {
                let r = self.bad_addr(*k);
                (Some(r.clone()), r)
            }
        };
        let m_true = self.model_mint(a);
        let expected_mint = match exp {
            ExpSel::None => None,
            ExpSel::Around(d) => m_true.map(|m| (m + *d as u128).saturating_sub(1)),
        };
        let coins: Vec<Coin> = match funds {
            Funds::Exact => Engine::coins(a, STAKED_DENOM),
            Funds::None => vec![],
            Funds::WrongDenom => Engine::coins(a.max(1), OTHER_DENOM),
            Funds::TwoCoins => vec![Coin::new(a.max(1), STAKED_DENOM), Coin::new(1, OTHER_DENOM)],
        };
        for c in &coins {
            self.ch.faucet(&sender, &c.denom, c.amount.u128());
        }
        // ---- model prediction
        let dec = bech32_decode(&recip);
        let (is_native, is_protocol, unusual) = match &dec {
            None => (false, false, false),
            Some(d) => {
                let plen = d.payload().map(|p| p.len());
                (
                    d.hrp == self.m.cfg.nprefix,
                    d.hrp == self.m.cfg.pprefix,
                    d.upper || !d.classic || !(plen == Some(20) || plen == Some(32)),
                )
            }
        };
        let (to_native, to_protocol) = if is_native && is_protocol {
            if flag.unwrap_or(false) {
                (true, false)
            } else {
                (false, true)
            }
        } else {
            (is_native, is_protocol)
        };
        let fail_hits = match fail {
            Some(0) => true,
            Some(1) => to_native,
            _ => false,
        };
        let plain_sender = sender.len().checked_sub(self.m.cfg.pprefix.len()) == Some(39);
        let mut tags: Vec<&'static str> = vec!["C04", "C03", "C19"];
        let exp_outcome = if *funds != Funds::Exact || a == 0 {
            Expect::Err
        } else if self.m.halted {
            tags = vec!["C10"];
            Expect::Err
        } else if mint_to.is_none() && !plain_sender {
            Expect::Err
        } else if dec.is_none() || (!is_native && !is_protocol) {
            tags = vec!["C03"];
            Expect::Err
        } else if a < self.m.cfg.min_stake {
            tags = vec!["C04"];
            Expect::Err
        } else if m_true.is_none() {
            Expect::Any
        } else if m_true == Some(0) {
            tags = vec!["C04"];
            Expect::Err
        } else if expected_mint.map(|e| m_true.unwrap() < e).unwrap_or(false) {
            tags = vec!["C04"];
            Expect::Err
        } else if fail_hits {
            tags = vec!["C07"];
            Expect::Err
        } else if self.oracle_blocks() || self.m.cfg.channel != self.ch.channel {
            Expect::Err
        } else if unusual || self.prefix_foreign() {
            Expect::Any
        } else {
            Expect::Ok
        };
        let exp_outcome = if self.prefix_foreign() && exp_outcome == Expect::Err && !self.m.halted && *funds == Funds::Exact { Expect::Any } else { exp_outcome };
        if exp_outcome == Expect::Ok && self.m.n.checked_add(a).is_none() {
            return; // outside the 128-bit domain; cannot happen with amounts <= 10^27
        }
        self.ch.fail_transfer = fail.map(|k| k as u32);
        let before = self.bank_snapshot();
        let supply_before = self.ch.supply_of(&self.a.lst_denom);
        let msg = ExecuteMsg::LiquidStake {
            mint_to: mint_to.clone(),
            transfer_to_native_chain: flag,
            expected_mint_amount: expected_mint.map(Uint128::from),
        };
        let out = self.ch.execute(&sender, &coins, msg);
        let what = format!("Stake a={a} sender={sender} to={recip} native={to_native} flag={flag:?} exp={expected_mint:?} fail={fail:?}");
        self.note(format!("{what} -> {}", out.ok));
        self.stats.bump(if out.ok { "Stake.ok" } else { "Stake.err" });
        let tags2 = tags.clone();
        if !self.expect(&tags2, &what, exp_outcome, &out) {
            if !out.ok {
                self.after_rejected(&what, &before);
                if fail_hits && exp_outcome == Expect::Err {
                    self.stats.flags.insert("submission_failure");
                }
                if exp_outcome == Expect::Err && (a + 1 == self.m.cfg.min_stake || m_true == Some(0) || matches!(exp, ExpSel::Around(2))) {
                    self.stats.flags.insert("stake_threshold_reject");
                }
            }
            return;
        }
        if exp_outcome == Expect::Any && (dec.is_none() || (!is_native && !is_protocol)) {
            return;
        }
        // ---- success: model transition
        let mut swept = 0;
        if self.m.l == 0 && self.m.n != 0 {
            swept = self.m.n;
            self.m.fees += swept;
            self.m.swept += swept;
            self.m.n = 0;
            self.m.fees_unbacked = true;
            self.stats.flags.insert("sweep");
        }
        let m = match m_true {
            Some(m) => m,
            None => return,
        };
        let rate_ne_1 = self.m.n != self.m.l;
        self.m.n += a;
        self.m.l += m;
        // effects
        let mints: Vec<(u128, String, String, bool)> = out
            .effects
            .iter()
            .filter_map(|e| match e {
                Effect::Mint { amount, denom, to, canonical, .. } => Some((*amount, denom.clone(), to.clone(), *canonical)),
                _ => None,
            })
            .collect();
        let lst = self.a.lst_denom.clone();
        let contract = self.a.contract.clone();
        self.chk(&["C04", "C03", "C19"], mints.len() == 1 && mints[0].0 == m && mints[0].1 == lst, || {
            format!("{what}: minted {:?}, reference floor(a*L/N)={m} (swept {swept})", mints)
        });
        self.chk(&["C19"], mints.len() == 1 && mints[0].2 == contract && mints[0].3, || format!("{what}: mint message {:?}", mints));
        let supply_after = self.ch.supply_of(&lst);
        self.chk(&["C03"], supply_after == supply_before + m, || format!("{what}: supply {supply_before} -> {supply_after}, minted {m}"));
        let trs = Engine::transfers(&out);
        let staker = self.m.cfg.staker.clone();
        let to_staker: Vec<_> = trs.iter().filter(|t| t.1 == staker && t.2 == STAKED_DENOM).cloned().collect();
        self.chk(&["C01"], to_staker.len() == 1 && to_staker[0].3 == a, || {
            format!("{what}: staked-asset transfers toward the staker {:?}, paid {a}", to_staker)
        });
        if let Some(t) = to_staker.first() {
            self.m.forwarded += t.3;
            self.track(&what, t);
        }
        let mut want = BankDelta::new();
        Engine::add_delta(&mut want, &sender, STAKED_DENOM, -(a as i128));
        if to_protocol {
            Engine::add_delta(&mut want, &recip, &lst, m as i128);
            self.chk(&["C03"], trs.len() == 1, || format!("{what}: unexpected transfers {:?}", trs));
            self.stats.flags.insert("stake_protocol");
        } else {
            let del: Vec<_> = trs.iter().filter(|t| t.2 == lst).cloned().collect();
            self.chk(&["C03"], del.len() == 1 && del[0].1 == recip && del[0].3 == m && trs.len() == 2, || {
                format!("{what}: LST delivery to native recipient {recip}: transfers {:?}, minted {m}", trs)
            });
            if let Some(t) = del.first() {
                self.track(&what, t);
                self.lst_packets.insert(t.0, recip.clone());
            }
            self.stats.flags.insert("stake_native");
            if rate_ne_1 {
                self.stats.flags.insert("stake_native_rate_ne_1");
            }
        }
        let got = Engine::bank_delta(&before, &self.ch.w.bank);
        self.chk(&["C03", "C02"], got == want, || format!("{what}: balance changes {:?}, expected {:?}", got, want));
        self.check_oracle(&what, &out, true);
        self.stats.flags.insert("stake_ok");
        if rate_ne_1 {
            self.stats.flags.insert("stake_rate_ne_1");
        }
        if let Some(e) = expected_mint {
            if e == m {
                self.stats.flags.insert("stake_at_expected");
            }
        }
        if a == self.m.cfg.min_stake {
            self.stats.flags.insert("stake_at_min");
        }
    }

    /// A rejected transaction must leave ledgers unchanged (the simulator rolls back; this
    /// catches partial effects that escaped the rollback model).
    fn after_rejected(&mut self, what: &str, before: &crate::sim::Ledger) {
        let same = *before == self.ch.w.bank;
        self.chk(&["C07", "C08", "C10"], same, || format!("{what}: rejected but balances changed"));
    }

    // ------------------------------------------------------------ Unstake

    fn do_unstake(&mut self, user: &Caller, amt: &Amt, funds: &Funds) {
        let mut sender = self.caller_addr(user);
        if let Caller::User(i) = user {
            // construction, not rejection: prefer an account that actually holds LST
            if self.ch.balance(&sender, &self.a.lst_denom) == 0 && (self.m.halted || *i % 3 == 0) {
                let n = self.a.users.len();
                for k in 1..n {
                    let cand = self.a.users[(*i as usize + k) % n].clone();
                    if self.ch.balance(&cand, &self.a.lst_denom) > 0 {
                        sender = cand;
                        break;
                    }
                }
            }
            if self.ch.balance(&sender, &self.a.lst_denom) == 0 && !self.m.halted && *funds == Funds::Exact {
                // nobody holds LST: stake first so that the unstake pipeline has something to work on
                self.stats.bump("fallback.unstake->stake");
                let a = match amt {
                    Amt::Sci(m, e) => Amt::Sci(*m, *e),
                    _ => Amt::Sci(1 + *i as u16 * 37, 3 + *i % 9),
                };
                return self.do_stake(user, &a, &Recip::Sender, None, &ExpSel::None, &Funds::Exact, None);
            }
        }
        let x = self.lst_amount(&sender, amt);
        let lst = self.a.lst_denom.clone();
        let coins: Vec<Coin> = match funds {
            Funds::Exact => Engine::coins(x, &lst),
            Funds::None => vec![],
            Funds::WrongDenom => {
                self.ch.faucet(&sender, OTHER_DENOM, 5);
                Engine::coins(5, OTHER_DENOM)
            }
            Funds::TwoCoins => {
                self.ch.faucet(&sender, OTHER_DENOM, 1);
                vec![Coin::new(x, &lst), Coin::new(1, OTHER_DENOM)]
            }
        };
        let (exp, tags): (Expect, Vec<&'static str>) = if *funds != Funds::Exact || x == 0 {
            (Expect::Err, vec!["C05"])
        } else if self.m.halted {
            (Expect::Err, vec!["C10"])
        } else {
            (Expect::Ok, vec!["C05"])
        };
        let before = self.bank_snapshot();
        let out = self.ch.execute(&sender, &coins, ExecuteMsg::LiquidUnstake {});
        let what = format!("Unstake x={x} sender={sender} funds={funds:?}");
        self.note(format!("{what} -> {}", out.ok));
        self.stats.bump(if out.ok { "Unstake.ok" } else { "Unstake.err" });
        if !self.expect(&tags, &what, exp, &out) {
            if !out.ok {
                self.after_rejected(&what, &before);
            }
            return;
        }
        let pid = self.m.pending;
        let b = self.m.batches.get_mut(&pid).unwrap();
        let repeated = b.reqs.contains_key(&sender);
        *b.reqs.entry(sender.clone()).or_insert(0) += x;
        b.total += x;
        let mut want = BankDelta::new();
        Engine::add_delta(&mut want, &sender, &lst, -(x as i128));
        Engine::add_delta(&mut want, &self.a.contract.clone(), &lst, x as i128);
        let got = Engine::bank_delta(&before, &self.ch.w.bank);
        self.chk(&["C03", "C05"], got == want && out.effects.is_empty(), || {
            format!("{what}: balance changes {:?} effects {:?}", got, out.effects)
        });
        if repeated {
            self.stats.flags.insert("repeated_unstake");
        }
        self.stats.flags.insert("unstake_ok");
    }

    // ------------------------------------------------------------ SubmitBatch

    fn align_clock(&mut self, due: Option<u64>, align: u8) {
        if let (Some(d), 1..=3) = (due, align) {
            let target = (d + align as u64).saturating_sub(2);
            if target > self.ch.now_s() {
                self.ch.time_ns = target * 1_000_000_000 + (self.ch.time_ns % 1_000_000_000);
                self.ch.height += 1;
                self.ch.tx_index = 0;
            }
        }
    }

    fn do_submit(&mut self, user: &Caller, align: u8) {
        let sender = self.caller_addr(user);
        let pid = self.m.pending;
        let b = self.m.batches.get(&pid).unwrap().clone();
        if b.reqs.is_empty() && align != 0 && !self.m.halted && matches!(user, Caller::User(_)) {
            self.stats.bump("fallback.submit->unstake");
            return self.do_unstake(user, &Amt::Frac(1 + align * 2), &Funds::Exact);
        }
        if !b.reqs.is_empty() {
            self.align_clock(b.due, align);
        }
        let now = self.ch.now_s();
        let due = b.due.unwrap_or(u64::MAX);
        let (exp, tags): (Expect, Vec<&'static str>) = if self.m.halted {
            (Expect::Err, vec!["C10"])
        } else if now < due || b.reqs.is_empty() {
            (Expect::Err, vec!["C06"])
        } else if self.m.l < b.total {
            (Expect::Err, vec!["C06"])
        } else if self.oracle_blocks() {
            (Expect::Err, vec!["C15"])
        } else if !deadline_ok(now, self.m.cfg.batch_period) || !deadline_ok(now, self.m.cfg.unbonding) {
            // no property says whether an unrepresentable deadline is refused at configuration or at use
            (Expect::Err, vec!["C16"])
        } else if now == due && self.subsecond_seen {
            (Expect::Any, vec![])
        } else {
            (Expect::Ok, vec!["C06", "C19"])
        };
        if now == due || now + 1 == due {
            self.stats.flags.insert("submit_at_boundary");
        }
        let before = self.bank_snapshot();
        let lst = self.a.lst_denom.clone();
        let supply_before = self.ch.supply_of(&lst);
        let out = self.ch.execute(&sender, &[], ExecuteMsg::SubmitBatch {});
        let what = format!("SubmitBatch by {sender} batch={pid} total={} now={now} due={due} reqs={}", b.total, b.reqs.len());
        self.note(format!("{what} -> {}", out.ok));
        self.stats.bump(if out.ok { "Submit.ok" } else { "Submit.err" });
        if !self.expect(&tags, &what, exp, &out) {
            if !out.ok {
                self.after_rejected(&what, &before);
            }
            return;
        }
        let (n, l) = (self.m.n, self.m.l);
        let u = if b.total == 0 { 0 } else { mul_div_floor(n, b.total, l).map(|x| x.0).unwrap_or(0) };
        self.m.n = n - u.min(n);
        self.m.l = l - b.total;
        self.m.set_aside += u;
        {
            let mb = self.m.batches.get_mut(&pid).unwrap();
            mb.expected = Some(u);
            mb.status = BStatus::Submitted;
            mb.due = Some(now + self.m.cfg.unbonding);
            mb.submitted_at = Some(now);
        }
        self.m.batches.insert(
            pid + 1,
            MBatch {
                id: pid + 1,
                total: 0,
                status: BStatus::Pending,
                due: Some(now + self.m.cfg.batch_period),
                expected: None,
                received: None,
                reqs: Default::default(),
                paid: 0,
                withdrawn: 0,
                submitted_at: None,
            },
        );
        self.m.pending = pid + 1;
        let burns: Vec<(u128, String, String, bool)> = out
            .effects
            .iter()
            .filter_map(|e| match e {
                Effect::Burn { amount, denom, from, canonical, .. } => Some((*amount, denom.clone(), from.clone(), *canonical)),
                _ => None,
            })
            .collect();
        let contract = self.a.contract.clone();
        self.chk(&["C03", "C19"], burns.len() == 1 && burns[0].0 == b.total && burns[0].1 == lst && burns[0].2 == contract, || {
            format!("{what}: burn effects {:?}, batch total {}", burns, b.total)
        });
        self.chk(&["C19"], burns.len() == 1 && burns[0].3, || format!("{what}: burn message not canonical"));
        let supply_after = self.ch.supply_of(&lst);
        self.chk(&["C03"], supply_before - b.total == supply_after, || {
            format!("{what}: supply {supply_before} -> {supply_after}, batch total {}", b.total)
        });
        let mut want = BankDelta::new();
        Engine::add_delta(&mut want, &contract, &lst, -(b.total as i128));
        let got = Engine::bank_delta(&before, &self.ch.w.bank);
        let n_other = out.effects.iter().filter(|e| !matches!(e, Effect::Burn { .. } | Effect::OraclePost { .. })).count();
        self.chk(&["C03"], got == want && n_other == 0, || format!("{what}: balance changes {:?} effects {:?}", got, out.effects));
        self.check_oracle(&what, &out, true);
        self.stats.flags.insert("submit_ok");
        if b.reqs.len() >= 2 {
            self.stats.flags.insert("submit_multi");
        }
        if n != l {
            self.stats.flags.insert("submit_rate_ne_1");
        }
    }

    // ------------------------------------------------------------ Withdraw

    fn batch_by_sel(&self, sel: u8) -> u64 {
        // prefer received batches, then any existing, sometimes a missing id
        let ids: Vec<u64> = self.m.batches.keys().copied().collect();
        let n = ids.len() as u64 + 1;
        let i = (sel as u64 * n) >> 4; // sel in 0..12 maps monotonically over ids + one unknown
        if (i as usize) < ids.len() {
            ids[i as usize]
        } else {
            ids.last().copied().unwrap_or(0) + 3
        }
    }

    fn do_withdraw(&mut self, user: &Caller, sel: u8) {
        let mut sender = self.caller_addr(user);
        if matches!(user, Caller::User(_)) && sel % 4 != 3 {
            let has_claim = |e: &Engine, who: &str| e.m.batches.values().any(|b| b.status == BStatus::Received && b.reqs.contains_key(who));
            if !has_claim(self, &sender) {
                let claimants: Vec<String> = self
                    .m
                    .batches
                    .values()
                    .filter(|b| b.status == BStatus::Received)
                    .flat_map(|b| b.reqs.keys().cloned())
                    .collect();
                if !claimants.is_empty() {
                    sender = claimants[(sel as usize / 4) % claimants.len()].clone();
                }
            }
        }
        // bias: if this user has an open request in a received batch, usually pick it
        let mine: Vec<u64> = self
            .m
            .batches
            .values()
            .filter(|b| b.status == BStatus::Received && b.reqs.contains_key(&sender))
            .map(|b| b.id)
            .collect();
        if mine.is_empty() && sel % 4 != 3 && !self.m.halted {
            // pipeline fallback (construction): nothing claimable, so move a batch forward instead
            self.stats.bump("fallback.withdraw->deliver");
            let amt = match sel % 3 {
                0 => DelAmt::Exact,
                1 => DelAmt::Short(1 + sel % 5),
                _ => DelAmt::Generous(17 + sel as u16),
            };
            return self.do_deliver(sel & !3, &amt, &HookWho::Staker, false, false, 2);
        }
        let id = if !mine.is_empty() && sel % 4 != 3 { mine[(sel as usize / 4) % mine.len()] } else { self.batch_by_sel(sel) };
        let mb = self.m.batches.get(&id).cloned();
        let (exp, tags): (Expect, Vec<&'static str>) = if self.m.halted {
            (Expect::Err, vec!["C10"])
        } else {
            match &mb {
                None => (Expect::Err, vec!["C05"]),
                Some(b) if b.status != BStatus::Received => (Expect::Err, vec!["C05", "C06"]),
                Some(b) if !b.reqs.contains_key(&sender) => (Expect::Err, vec!["C05", "C08"]),
                Some(_) if self.oracle_blocks() => (Expect::Err, vec!["C15"]),
                Some(_) if self.solvency_void => (Expect::Any, vec![]),
                Some(_) => (Expect::Ok, vec!["C05", "C02"]),
            }
        };
        let before = self.bank_snapshot();
        let out = self.ch.execute(&sender, &[], ExecuteMsg::Withdraw { batch_id: id });
        let what = format!("Withdraw by {sender} batch={id}");
        self.note(format!("{what} -> {}", out.ok));
        self.stats.bump(if out.ok { "Withdraw.ok" } else { "Withdraw.err" });
        if !self.expect(&tags, &what, exp, &out) {
            if !out.ok {
                self.after_rejected(&what, &before);
                if mb.map(|b| b.status == BStatus::Received).unwrap_or(false) && !self.m.halted {
                    self.stats.flags.insert("withdraw_refused_in_received");
                }
            }
            return;
        }
        let b = self.m.batches.get_mut(&id).unwrap();
        let req = b.reqs.remove(&sender).unwrap();
        let received = b.received.unwrap();
        let pay = mul_div_floor(received, req, b.total).map(|x| x.0).unwrap_or(0);
        b.paid += pay;
        b.withdrawn += 1;
        let over = b.paid > received;
        let nreq = b.reqs.len();
        let exact = b.expected == b.received;
        let mut want = BankDelta::new();
        Engine::add_delta(&mut want, &sender, STAKED_DENOM, pay as i128);
        Engine::add_delta(&mut want, &self.a.contract.clone(), STAKED_DENOM, -(pay as i128));
        let got = Engine::bank_delta(&before, &self.ch.w.bank);
        self.chk(&["C05", "C02", "C08"], got == want, || {
            format!("{what}: balance changes {:?}, reference payout floor({received}*{req}/total)={pay}", got)
        });
        self.chk(&["C05"], !over, || format!("{what}: payouts of the batch exceed what was received"));
        self.check_oracle(&what, &out, false);
        self.stats.flags.insert("withdraw_ok");
        if !exact {
            self.stats.flags.insert("withdraw_inexact_batch");
        }
        if nreq >= 1 {
            self.stats.flags.insert("withdraw_with_others_open");
        }
    }

    // ------------------------------------------------------------ operator deliveries (ibc-hooks)

    fn hook_native(&self, who: &HookWho) -> String {
        match who {
            HookWho::Staker | HookWho::StakerDirect => self.m.cfg.staker.clone(),
            HookWho::Collector | HookWho::CollectorDirect => self.m.cfg.collector.clone(),
            HookWho::Other(i) => self.a.natives[*i as usize % self.a.natives.len()].clone(),
        }
    }

    /// ibc-hooks delivery, or (for the `*Direct` selectors) a plain local call by the native address itself
    /// Prefix under which the intermediate account of this delivery is derived: the chain's own, except that with a
    /// different configured protocol prefix the authentic staker / collector deliveries come from the account derived
    /// under the *configured* prefix (the account C09 says is accepted).
    fn hook_prefix(&self, who: &HookWho) -> String {
        // (on even steps; on odd steps the chain-prefix account calls, which then is an impostor and must be refused)
        if self.prefix_foreign() && matches!(who, HookWho::Staker | HookWho::Collector) && self.step % 2 == 0 {
            self.m.cfg.pprefix.clone()
        } else {
            self.a.pprefix.clone()
        }
    }

    fn hook_call(&mut self, who: &HookWho, channel: &str, native_sender: &str, denom: &str, amount: u128, msg: ExecuteMsg) -> (String, TxOutcome) {
        let hp = self.hook_prefix(who);
        if hp != self.a.pprefix {
            let sender = hooks_sender(channel, native_sender, &hp);
            self.ch.faucet(&sender, denom, amount);
            self.stats.flags.insert("delivery_under_configured_foreign_prefix");
            let out = self.ch.execute(&sender, &[Coin::new(amount, denom)], msg);
            return (sender, out);
        }
        if matches!(who, HookWho::StakerDirect | HookWho::CollectorDirect) {
            self.ch.faucet(native_sender, denom, amount);
            self.stats.flags.insert("native_address_as_local_sender");
            let out = self.ch.execute(native_sender, &[Coin::new(amount, denom)], msg);
            (native_sender.to_string(), out)
        } else {
            self.ch.hooks_execute(channel, native_sender, denom, amount, msg)
        }
    }

    fn do_deliver(&mut self, sel: u8, amt: &DelAmt, who: &HookWho, other_channel: bool, wrong_denom: bool, align: u8) {
        // bias toward submitted batches
        let subs: Vec<u64> = self.m.batches.values().filter(|b| b.status == BStatus::Submitted).map(|b| b.id).collect();
        if subs.is_empty() && sel % 4 != 3 && !self.m.halted && *who == HookWho::Staker && !other_channel && !wrong_denom {
            self.stats.bump("fallback.deliver->submit");
            return self.do_submit(&Caller::User(sel / 4), 2);
        }
        let id = if !subs.is_empty() && sel % 4 != 3 { subs[(sel as usize / 4) % subs.len()] } else { self.batch_by_sel(sel) };
        let mb = self.m.batches.get(&id).cloned();
        if let Some(b) = &mb {
            if b.status == BStatus::Submitted {
                self.align_clock(b.due, align);
            }
        }
        let expected = mb.as_ref().and_then(|b| b.expected).unwrap_or(1000);
        let amount = match amt {
            DelAmt::Exact => expected.max(1),
            DelAmt::Short(k) => (expected / 8 * (8 - *k as u128)).max(1),
            DelAmt::Generous(x) => expected.saturating_add(*x as u128).min(CAP * 100),
            DelAmt::One => 1,
        };
        let native_sender = self.hook_native(who);
        let channel = if other_channel { self.a.other_channel.clone() } else { self.ch.channel.clone() };
        let denom = if wrong_denom { OTHER_DENOM } else { STAKED_DENOM };
        let now = self.ch.now_s();
        // reference derivation from the *configuration* (what the property says is accepted)
        let accepted = hooks_sender(&self.m.cfg.channel, &self.m.cfg.staker, &self.m.cfg.pprefix);
        let direct = matches!(who, HookWho::StakerDirect | HookWho::CollectorDirect);
        let local = direct || self.hook_prefix(who) != self.a.pprefix;
        let actual = if direct { native_sender.clone() } else { hooks_sender(&channel, &native_sender, &self.hook_prefix(who)) };
        let due = mb.as_ref().and_then(|b| b.due);
        let (exp, tags): (Expect, Vec<&'static str>) = if self.m.halted {
            (Expect::Err, vec!["C10"])
        } else if actual != accepted {
            (Expect::Err, vec!["C08", "C09", "C06"])
        } else if wrong_denom {
            (Expect::Err, vec!["C06"])
        } else {
            match &mb {
                None => (Expect::Err, vec!["C06"]),
                Some(b) if b.status != BStatus::Submitted => (Expect::Err, vec!["C06"]),
                Some(_) if due.map(|d| now < d).unwrap_or(true) => (Expect::Err, vec!["C06"]),
                Some(_) if due == Some(now) && self.subsecond_seen => (Expect::Any, vec![]),
                Some(_) => (Expect::Ok, vec!["C06", "C09"]),
            }
        };
        if let (Some(d), Some(b)) = (due, &mb) {
            if b.status == BStatus::Submitted && (now == d || now + 1 == d) {
                self.stats.flags.insert("deliver_at_boundary");
            }
        }
        let before0 = self.bank_snapshot();
        let (inter, out) = self.hook_call(who, &channel, &native_sender, denom, amount, ExecuteMsg::ReceiveUnstakedTokens { batch_id: id });
        let before = if local { let mut b = before0; *b.entry((inter.clone(), denom.to_string())).or_insert(0) += amount; b } else { before0 };
        let what = format!("DeliverUnstaked batch={id} amount={amount} from={native_sender} via={channel} denom_ok={} hook={inter} now={now} due={due:?}", !wrong_denom);
        self.note(format!("{what} -> {}", out.ok));
        self.stats.bump(if out.ok { "Deliver.ok" } else { "Deliver.err" });
        if actual != accepted {
            self.stats.flags.insert("impostor_delivery");
        }
        if !self.expect(&tags, &what, exp, &out) {
            if !out.ok {
                self.after_rejected(&what, &before);
            }
            return;
        }
        let b = self.m.batches.get_mut(&id).unwrap();
        b.received = Some(amount);
        b.status = BStatus::Received;
        b.due = None;
        let e = b.expected.unwrap_or(0);
        let nreq = b.reqs.len();
        self.m.paid_back_expected += e;
        self.staker_ledger -= e as i128;
        let mut want = BankDelta::new();
        Engine::add_delta(&mut want, &self.a.contract.clone(), STAKED_DENOM, amount as i128);
        let got = Engine::bank_delta(&before, &self.ch.w.bank);
        self.chk(&["C02", "C06"], got == want && out.effects.is_empty(), || format!("{what}: balance changes {:?} effects {:?}", got, out.effects));
        self.stats.flags.insert("deliver_ok");
        if amount != e {
            self.stats.flags.insert("deliver_inexact");
        }
        if nreq >= 2 {
            self.stats.flags.insert("deliver_multi_req");
        }
        if nreq >= 3 && amount != e {
            self.stats.flags.insert("deliver_inexact_3req");
        }
    }

    fn do_rewards(&mut self, amt: &Amt, who: &HookWho, other_channel: bool, wrong_denom: bool, fail: bool) {
        let mut r = match amt {
            Amt::Min | Amt::MinMinus1 => 100_000,
            Amt::One => 1,
            Amt::Sci(m, e) => Engine::sci(*m, *e),
            Amt::All => self.m.n.max(1),
            Amt::Frac(k) => (self.m.n / 64).saturating_mul(*k as u128).max(1),
            Amt::MintsOne => 99_999,
            Amt::MintsZero => 100_001,
            Amt::OnBoundary(k, d) => {
                // around a multiple of 100000/rate so the fee division sits on a boundary
                let rate = self.m.cfg.fee_rate.max(1);
                (Engine::ceil_div((*k as u128) * 100_000, rate) + *d as u128).saturating_sub(1).max(1)
            }
        };
        // keep the redemption rate inside the domain stated by C16 (<= 10^3; generator keeps slack)
        if self.m.l > 0 {
            let cap = self.m.l.saturating_mul(400).saturating_sub(self.m.n);
            if r > cap {
                r = cap.max(1);
                self.stats.remapped += 1;
            }
        }
        r = r.min(CAP);
        let native_sender = self.hook_native(who);
        let channel = if other_channel { self.a.other_channel.clone() } else { self.ch.channel.clone() };
        let denom = if wrong_denom { OTHER_DENOM } else { STAKED_DENOM };
        let accepted = hooks_sender(&self.m.cfg.channel, &self.m.cfg.collector, &self.m.cfg.pprefix);
        let direct = matches!(who, HookWho::StakerDirect | HookWho::CollectorDirect);
        let local = direct || self.hook_prefix(who) != self.a.pprefix;
        let actual = if direct { native_sender.clone() } else { hooks_sender(&channel, &native_sender, &self.hook_prefix(who)) };
        let fee = mul_div_floor(self.m.cfg.fee_rate, r, 100_000);
        let (exp, tags): (Expect, Vec<&'static str>) = if self.m.halted {
            (Expect::Err, vec!["C10"])
        } else if self.m.l == 0 {
            (Expect::Err, vec!["C11"])
        } else if actual != accepted {
            (Expect::Err, vec!["C08", "C09"])
        } else if wrong_denom {
            (Expect::Err, vec!["C11"])
        } else {
            match fee {
                None => (Expect::Err, vec!["C11", "C16"]),
                Some((f, _)) if f > r => (Expect::Err, vec!["C11"]),
                Some((f, _)) if f == r => (Expect::Any, vec![]),
                Some(_) if fail => (Expect::Err, vec!["C07"]),
                Some(_) if self.oracle_blocks() => (Expect::Err, vec!["C15"]),
                Some(_) if self.m.cfg.channel != self.ch.channel => (Expect::Err, vec!["C07"]),
                Some(_) if self.prefix_foreign() => (Expect::Any, vec![]),
                Some(_) => (Expect::Ok, vec!["C11", "C09"]),
            }
        };
        if fail {
            self.ch.fail_transfer = Some(0);
        }
        let before0 = self.bank_snapshot();
        let (inter, out) = self.hook_call(who, &channel, &native_sender, denom, r, ExecuteMsg::ReceiveRewards {});
        let before = if local { let mut b = before0; *b.entry((inter.clone(), denom.to_string())).or_insert(0) += r; b } else { before0 };
        let what = format!("DeliverRewards r={r} from={native_sender} via={channel} denom_ok={} hook={inter} fee_rate={} treasury={:?} fail={fail}", !wrong_denom, self.m.cfg.fee_rate, self.m.cfg.treasury);
        self.note(format!("{what} -> {}", out.ok));
        self.stats.bump(if out.ok { "Rewards.ok" } else { "Rewards.err" });
        if actual != accepted {
            self.stats.flags.insert("impostor_rewards");
        }
        if !self.expect(&tags, &what, exp, &out) {
            if !out.ok {
                self.after_rejected(&what, &before);
                if fail && exp == Expect::Err && tags == vec!["C07"] {
                    self.stats.flags.insert("submission_failure");
                }
            }
            return;
        }
        let (f, rem) = match fee {
            Some(x) => x,
            None => return,
        };
        if f > r {
            return self.chk(&["C11"], false, || format!("{what}: accepted although the fee {f} exceeds the reward"));
        }
        // f == r: nothing to restake; an implementation may accept such a reward (forwarding nothing) —
        // the fee must then still reach the treasury or the fee balance, exactly like any other fee
        let rest = r - f;
        self.m.n += rest;
        self.m.rewards += r;
        let contract = self.a.contract.clone();
        let mut want = BankDelta::new();
        match self.m.cfg.treasury.clone() {
            Some(t) => Engine::add_delta(&mut want, &t, STAKED_DENOM, f as i128),
            None => {
                self.m.fees += f;
                Engine::add_delta(&mut want, &contract, STAKED_DENOM, f as i128);
            }
        }
        let trs = Engine::transfers(&out);
        let staker = self.m.cfg.staker.clone();
        let transfers_ok = if rest == 0 { trs.is_empty() } else { trs.len() == 1 && trs[0].1 == staker && trs[0].2 == STAKED_DENOM && trs[0].3 == rest };
        self.chk(&["C11", "C01"], transfers_ok, || {
            format!("{what}: transfers {:?}; reference fee floor(rate*r/100000)={f}, restaked {rest}", trs)
        });
        if let Some(t) = trs.first() {
            if t.1 == staker && t.2 == STAKED_DENOM {
                self.m.forwarded += t.3;
            }
            self.track(&what, t);
        }
        let got = Engine::bank_delta(&before, &self.ch.w.bank);
        self.chk(&["C11", "C02"], got == want, || format!("{what}: balance changes {:?}, expected {:?} (fee {f})", got, want));
        let n_other = out
            .effects
            .iter()
            .filter(|e| !matches!(e, Effect::Transfer { .. } | Effect::OraclePost { .. } | Effect::BankSend { .. }))
            .count();
        self.chk(&["C11"], n_other == 0, || format!("{what}: unexpected effects {:?}", out.effects));
        self.check_oracle(&what, &out, true);
        self.stats.flags.insert("rewards_ok");
        if rem != 0 {
            self.stats.flags.insert("fee_remainder");
        }
        if self.m.cfg.treasury.is_none() && f > 0 {
            self.stats.flags.insert("fee_accrued");
        }
    }

    // ------------------------------------------------------------ IBC outcomes

    fn do_resolve(&mut self, sel: u8, outcome: &Outcome) {
        let inflight: Vec<u64> = self.m.packets.values().filter(|p| p.status == PStatus::Sent).map(|p| p.seq).collect();
        if inflight.is_empty() {
            self.note("resolve: nothing in flight".into());
            return;
        }
        let seq = inflight[((sel as usize) * inflight.len()) >> 4];
        let p = self.m.packets.get(&seq).unwrap().clone();
        let remote_denom = if p.denom == STAKED_DENOM { NATIVE_DENOM } else { NATIVE_LST_VOUCHER };
        let before = self.bank_snapshot();
        let cb = self.ch.resolve_packet(seq, to_outcome(outcome), remote_denom);
        let what = format!("Resolve seq={seq} {:?} ({} {} -> {})", outcome, p.amount, p.denom, p.receiver);
        self.note(what.clone());
        self.stats.bump(&format!("Resolve.{:?}", outcome));
        match cb {
            None => self.chk(&["C07"], false, || format!("{what}: the packet carried no callback for the contract, it can never learn the outcome")),
            Some(out) => {
                self.expect(&["C07"], &what, Expect::Ok, &out);
                let n = out.effects.len();
                self.chk(&["C07"], n == 0, || format!("{what}: callback emitted {n} messages"));
            }
        }
        let contract = self.a.contract.clone();
        let mut want = BankDelta::new();
        match outcome {
            Outcome::Ack => {
                self.m.packets.remove(&seq);
                if p.denom == STAKED_DENOM && p.receiver == self.m.cfg.staker {
                    self.staker_ledger += p.amount as i128;
                }
                if p.denom == self.a.lst_denom {
                    *self.native_lst_expected.entry(p.receiver.clone()).or_insert(0) += p.amount;
                }
            }
            Outcome::ErrAck => {
                self.m.packets.get_mut(&seq).unwrap().status = PStatus::AckFailure;
                Engine::add_delta(&mut want, &contract, &p.denom, p.amount as i128);
                self.stats.flags.insert("nonsuccess_outcome");
            }
            Outcome::Timeout => {
                self.m.packets.get_mut(&seq).unwrap().status = PStatus::TimedOut;
                Engine::add_delta(&mut want, &contract, &p.denom, p.amount as i128);
                self.stats.flags.insert("nonsuccess_outcome");
            }
        }
        let got = Engine::bank_delta(&before, &self.ch.w.bank);
        self.chk(&["C07"], got == want, || format!("{what}: balance changes {:?}", got));
    }

    fn do_stray(&mut self, kind: &StrayKind, sel: u8) {
        let known: Vec<u64> = self.m.packets.keys().copied().collect();
        let pick_known = || if known.is_empty() { 1 } else { known[((sel as usize) * known.len()) >> 4] };
        let unknown = {
            let mut s = self.ch.w.next_seq + sel as u64;
            while self.m.packets.contains_key(&s) {
                s += 1;
            }
            // sometimes a sequence below everything tracked (already finished or foreign)
            if sel % 2 == 0 {
                let mut t = sel as u64 / 2;
                while self.m.packets.contains_key(&t) {
                    t += 1000;
                }
                s = t;
            }
            s
        };
        let (channel, seq, o) = match kind {
            StrayKind::OtherChannelKnown(o) => (self.a.other_channel.clone(), pick_known(), o),
            StrayKind::UnknownSeq(o) => (self.m.cfg.channel.clone(), unknown, o),
            StrayKind::OtherChannelUnknown(o) => (self.a.other_channel.clone(), unknown, o),
        };
        let msg = match o {
            Outcome::Ack => IBCLifecycleComplete::IBCAck { channel: channel.clone(), sequence: seq, ack: "x".into(), success: true },
            Outcome::ErrAck => IBCLifecycleComplete::IBCAck { channel: channel.clone(), sequence: seq, ack: "x".into(), success: false },
            Outcome::Timeout => IBCLifecycleComplete::IBCTimeout { channel: channel.clone(), sequence: seq },
        };
        let storage_before = self.ch.w.storage.clone();
        let bank_before = self.bank_snapshot();
        let out = self.ch.sudo(SudoMsg::IBCLifecycleComplete(msg));
        let what = format!("Stray {:?} channel={channel} seq={seq}", kind);
        self.note(what.clone());
        self.stats.bump("Stray");
        self.expect(&["C07"], &what, Expect::Any, &out);
        let same = storage_before == self.ch.w.storage && bank_before == self.ch.w.bank && out.effects.is_empty();
        let keys: Vec<String> = storage_before.diff_keys(&self.ch.w.storage).iter().map(|k| crate::store::key_namespace(k)).collect();
        self.chk(&["C07"], same, || format!("{what}: a stray acknowledgement changed state: keys {:?}", keys));
        self.stats.flags.insert("stray");
    }

    // ------------------------------------------------------------ Recover

    fn do_recover(&mut self, user: &Caller, mode: &RecMode, fail: bool) {
        let sender = self.caller_addr(user);
        let is_admin = sender == self.m.admin;
        let all: Vec<MPacket> = self.m.packets.values().cloned().collect();
        let (paginated, receiver_arg, selected): (Option<bool>, Option<String>, Option<Vec<u64>>) = match mode {
            RecMode::Plain => (None, None, None),
            RecMode::Paginated => (Some(true), None, None),
            RecMode::Receiver(i, p) => {
                let r = if all.is_empty() {
                    self.a.natives[*i as usize % self.a.natives.len()].clone()
                } else {
                    all[((*i as usize) * all.len()) >> 4].receiver.clone()
                };
                (Some(*p), Some(r), None)
            }
            RecMode::Selected(sels, dup) => {
                let refundable: Vec<&MPacket> = all.iter().filter(|p| p.status != PStatus::Sent).collect();
                let inflight: Vec<&MPacket> = all.iter().filter(|p| p.status == PStatus::Sent).collect();
                let mut ids = vec![];
                // candidates that can legitimately be merged with the first pick (same receiver and denom);
                // one selector value in eight keeps the unrestricted (usually rejected) choice
                let first = refundable.get((sels[0] as usize / 2) % refundable.len().max(1)).cloned();
                let refundable: Vec<&MPacket> = match (&first, sels[0] % 8 == 7) {
                    (Some(f), false) => refundable.iter().copied().filter(|p| p.receiver == f.receiver && (p.denom == f.denom || sels[0] % 8 == 5)).collect(),
                    _ => refundable,
                };
                for s in sels {
                    let id = if s % 2 == 0 && !refundable.is_empty() {
                        refundable[(*s as usize / 2) % refundable.len()].seq
                    } else if s % 4 == 1 && !inflight.is_empty() && (!is_admin) {
                        // in-flight ids are offered only by non-admins (C07: they can never re-send them)
                        inflight[(*s as usize / 4) % inflight.len()].seq
                    } else if s % 4 == 3 {
                        self.ch.w.next_seq + 50 + *s as u64
                    } else if !refundable.is_empty() {
                        refundable[(*s as usize) % refundable.len()].seq
                    } else {
                        self.ch.w.next_seq + 50 + *s as u64
                    };
                    ids.push(id);
                }
                if *dup {
                    let f = ids[0];
                    ids.push(f);
                }
                // receiver: that of the first id when tracked, else default
                let r = self.m.packets.get(&ids[0]).map(|p| p.receiver.clone());
                let r = match r {
                    Some(r) if r != self.m.cfg.staker => Some(r),
                    Some(_) if sels[0] % 8 == 0 => Some(self.m.cfg.staker.clone()),
                    _ => None,
                };
                (None, r, Some(ids))
            }
        };
        let receiver = receiver_arg.clone().unwrap_or_else(|| self.m.cfg.staker.clone());
        // ---- model: which packets may be re-sent
        let mut mixed = false;
        let (exp, tags, predicted): (Expect, Vec<&'static str>, Vec<u64>) = if let Some(ids) = &selected {
            let mut distinct: Vec<u64> = vec![];
            for i in ids {
                if !distinct.contains(i) {
                    distinct.push(*i);
                }
            }
            if !is_admin {
                (Expect::Err, vec!["C07", "C08", "C02"], vec![])
            } else if distinct.iter().any(|i| !self.m.packets.contains_key(i)) {
                (Expect::Err, vec!["C07", "C02"], vec![])
            } else if distinct.iter().any(|i| self.m.packets[i].receiver != receiver) {
                (Expect::Err, vec!["C07"], vec![])
            } else {
                let d0 = self.m.packets[&distinct[0]].denom.clone();
                if distinct.iter().any(|i| self.m.packets[i].denom != d0) {
                    mixed = true;
                    (Expect::Any, vec![], distinct)
                } else if fail {
                    (Expect::Err, vec!["C07"], vec![])
                } else if distinct.len() != ids.len() {
                    // repeated ids: rejecting the list and taking each packet once are both "at most once"
                    (Expect::Any, vec![], distinct)
                } else {
                    (Expect::Ok, vec!["C07"], distinct)
                }
            }
        } else {
            let dec_ok = receiver_arg.as_ref().map(|r| bech32_decode(r).map(|d| d.hrp == self.m.cfg.nprefix).unwrap_or(false)).unwrap_or(true);
            let mut set: Vec<u64> = self.m.refundable().filter(|p| p.receiver == receiver).map(|p| p.seq).collect();
            set.sort();
            // refundable packets of several denoms wait for this receiver: which single-denom group (and, when
            // paginated, which page of it) is taken is not fixed by C07; the re-sent set is then read from the queue
            let full = set.clone();
            let full_mixed = full.first().map(|f| full.iter().any(|i| self.m.packets[i].denom != self.m.packets[f].denom)).unwrap_or(false);
            if paginated == Some(true) {
                if set.len() > 10 {
                    self.stats.flags.insert("recover_page_truncated");
                }
                set.truncate(10);
            }
            if !dec_ok {
                (Expect::Err, vec!["C07"], vec![])
            } else if set.is_empty() {
                (Expect::Err, vec!["C07", "C02", "C03"], vec![])
            } else {
                if full_mixed {
                    mixed = true;
                    (Expect::Any, vec![], full)
                } else if fail {
                    (Expect::Err, vec!["C07"], vec![])
                } else {
                    (Expect::Ok, vec!["C07", "C02"], set)
                }
            }
        };
        let fail = fail || self.m.cfg.channel != self.ch.channel;
        let exp = if exp == Expect::Ok && self.solvency_void { Expect::Any } else { exp };
        if fail {
            self.ch.fail_transfer = Some(0);
        }
        let before = self.bank_snapshot();
        let storage_before = self.ch.w.storage.clone();
        let msg = ExecuteMsg::RecoverPendingIbcTransfers { paginated, selected_packets: selected.clone(), receiver: receiver_arg.clone() };
        let out = self.ch.execute(&sender, &[], msg);
        let what = format!("Recover by {sender} admin={is_admin} paginated={paginated:?} receiver={receiver_arg:?} selected={selected:?} fail={fail}");
        self.note(format!("{what} -> {}", out.ok));
        self.stats.bump(if out.ok { "Recover.ok" } else { "Recover.err" });
        if !self.expect(&tags, &what, exp, &out) {
            if !out.ok {
                self.after_rejected(&what, &before);
                let same = storage_before == self.ch.w.storage;
                self.chk(&["C07"], same, || format!("{what}: rejected but storage changed"));
                if fail && exp == Expect::Err && !predicted.is_empty() {
                    self.stats.flags.insert("submission_failure");
                }
            }
            return;
        }
        // ---- success: exactly one transfer, to `receiver`, of the sum of the re-sent set
        let trs = Engine::transfers(&out);
        if trs.len() != 1 || out.effects.len() != 1 {
            return self.chk(&["C07"], false, || format!("{what}: effects {:?}", out.effects));
        }
        let t = trs[0].clone();
        let resent: Vec<u64> = if mixed {
            // any single-denom subset of the candidate set is acceptable; read which one from the queue
            let q: Vec<u64> = self.query_ibc_queue().iter().map(|p| p.0).collect();
            predicted.iter().copied().filter(|i| !q.contains(i)).collect()
        } else {
            predicted.clone()
        };
        let sum: u128 = resent.iter().map(|i| self.m.packets[i].amount).sum();
        let denoms: std::collections::BTreeSet<String> = resent.iter().map(|i| self.m.packets[i].denom.clone()).collect();
        let all_refundable = resent.iter().all(|i| self.m.packets[i].status != PStatus::Sent);
        let ok = !resent.is_empty() && denoms.len() == 1 && denoms.contains(&t.2) && t.3 == sum && t.1 == receiver && (all_refundable || is_admin);
        self.chk(&["C07", "C02"], ok, || {
            format!("{what}: re-sent {} {} to {}; the distinct selected refundable packets {:?} sum to {sum} ({:?}) for {receiver}", t.3, t.2, t.1, resent, denoms)
        });
        for i in &resent {
            self.m.packets.remove(i);
        }
        self.track(&what, &t);
        if t.2 == self.a.lst_denom {
            self.lst_packets.insert(t.0, t.1.clone());
        }
        let mut want = BankDelta::new();
        Engine::add_delta(&mut want, &self.a.contract.clone(), &t.2, -(t.3 as i128));
        let got = Engine::bank_delta(&before, &self.ch.w.bank);
        self.chk(&["C07", "C02"], got == want, || format!("{what}: balance changes {:?}", got));
        self.stats.flags.insert("recover_ok");
        if resent.len() >= 2 {
            self.stats.flags.insert("recover_merge");
        }
        if selected.is_some() {
            self.stats.flags.insert("recover_forced");
            if selected.as_ref().unwrap().len() != resent.len() {
                self.stats.flags.insert("recover_forced_dup");
            }
        }
    }

    // ------------------------------------------------------------ admin ops

    fn do_fee_withdraw(&mut self, user: &Caller, amt: &FeeAmt) {
        let sender = self.caller_addr(user);
        let x = match amt {
            FeeAmt::Zero => 0,
            FeeAmt::Part(k) => (self.m.fees / 8).saturating_mul(*k as u128).max(1),
            FeeAmt::All => self.m.fees,
            FeeAmt::AllPlus1 => self.m.fees.saturating_add(1),
        };
        let (exp, tags): (Expect, Vec<&'static str>) = if sender != self.m.admin {
            (Expect::Err, vec!["C08"])
        } else if x > self.m.fees || self.m.cfg.treasury.is_none() {
            (Expect::Err, vec!["C11"])
        } else if self.m.fees_unbacked {
            (Expect::Any, vec![])
        } else {
            (Expect::Ok, vec!["C11", "C02"])
        };
        let before = self.bank_snapshot();
        let out = self.ch.execute(&sender, &[], ExecuteMsg::FeeWithdraw { amount: Uint128::from(x) });
        let what = format!("FeeWithdraw {x} by {sender} (accrued {}, treasury {:?})", self.m.fees, self.m.cfg.treasury);
        self.note(format!("{what} -> {}", out.ok));
        self.stats.bump(if out.ok { "FeeWithdraw.ok" } else { "FeeWithdraw.err" });
        if !self.expect(&tags, &what, exp, &out) {
            if !out.ok {
                self.after_rejected(&what, &before);
            }
            return;
        }
        let near = x == self.m.fees || x + 1 == self.m.fees;
        if self.m.fees_unbacked && x > 0 {
            self.solvency_void = true;
        }
        self.m.fees -= x;
        let t = self.m.cfg.treasury.clone().unwrap();
        let mut want = BankDelta::new();
        Engine::add_delta(&mut want, &t, STAKED_DENOM, x as i128);
        Engine::add_delta(&mut want, &self.a.contract.clone(), STAKED_DENOM, -(x as i128));
        let got = Engine::bank_delta(&before, &self.ch.w.bank);
        self.chk(&["C11", "C02"], got == want, || format!("{what}: balance changes {:?}", got));
        self.stats.flags.insert("fee_withdraw_ok");
        if near && x > 0 {
            self.stats.flags.insert("fee_withdraw_near_all");
        }
    }

    fn do_breaker(&mut self, user: &Caller) {
        let sender = self.caller_addr(user);
        let allowed = sender == self.m.admin || self.m.cfg.monitors.contains(&sender);
        let exp = if allowed { Expect::Ok } else { Expect::Err };
        let storage_before = self.ch.w.storage.clone();
        let before = self.bank_snapshot();
        let out = self.ch.execute(&sender, &[], ExecuteMsg::CircuitBreaker {});
        let what = format!("CircuitBreaker by {sender}");
        self.note(format!("{what} -> {}", out.ok));
        self.stats.bump(if out.ok { "Breaker.ok" } else { "Breaker.err" });
        if !self.expect(&["C08", "C10"], &what, exp, &out) {
            if !out.ok {
                self.after_rejected(&what, &before);
            }
            return;
        }
        let was_halted = self.m.halted;
        self.m.halted = true;
        // raw diff: nothing but the config item, and inside it nothing but `stopped`
        let keys: Vec<String> = storage_before.diff_keys(&self.ch.w.storage).iter().map(|k| crate::store::key_namespace(k)).collect();
        let keys: Vec<String> = keys.into_iter().filter(|k| crate::store::known_namespace(k)).collect();
        let only_config = keys.iter().all(|k| k == "config") && (was_halted || keys.len() == 1);
        self.chk(&["C10"], only_config && out.effects.is_empty() && before == self.ch.w.bank, || {
            format!("{what}: halting changed {:?} effects {:?}", keys, out.effects)
        });
        if let (Some(a), Some(b)) = (storage_before.data.get(b"config".as_slice()), self.ch.w.storage.data.get(b"config".as_slice())) {
            let mut ja: serde_json::Value = serde_json::from_slice(a).unwrap_or_default();
            let jb: serde_json::Value = serde_json::from_slice(b).unwrap_or_default();
            ja["stopped"] = serde_json::Value::Bool(true);
            self.chk(&["C10"], ja == jb, || format!("{what}: config changed beyond the halted flag"));
        }
        self.stats.flags.insert("halted");
    }

    fn do_resume(&mut self, user: &Caller, mode: &ResumeMode) {
        let sender = self.caller_addr(user);
        let (n0, l0, r0) = (self.m.n, self.m.l, self.m.rewards);
        let (mut n, mut l, r) = match mode {
            ResumeMode::Same => (n0, l0, r0),
            ResumeMode::ScaleNative(k) => ((n0 / 8).saturating_mul(*k as u128), l0, r0),
            ResumeMode::ZeroLst => (n0.max(1000), 0, r0),
            ResumeMode::Zero => (0, 0, 0),
            ResumeMode::Raw(a, b, c) => ((*a as u128) * 1_000_000, (*b as u128) * 1_000_000, *c as u128),
            ResumeMode::One(w, k) => match w % 3 {
                0 => (n0, l0, *k as u128),
                // (with no LST outstanding a larger staked total would be ownerless stake: that is `ZeroLst`'s job)
                1 if l0 == 0 => (n0, l0, *k as u128),
                1 => (n0 + *k as u128, l0, r0),
                _ => (n0, if l0 == 0 { 0 } else { l0 + *k as u128 }, r0),
            },
        };
        if let ResumeMode::One(..) = mode {
            self.stats.flags.insert("resume_one_total_replaced");
        }
        // stay inside the exchange-rate domain [10^-3, 10^3] (with slack); (0,0) and l = 0 are allowed
        if l > 0 {
            if n == 0 || n > l.saturating_mul(300) || l > n.saturating_mul(300) {
                n = l;
                self.stats.remapped += 1;
            }
        }
        if n > CAP * 50 {
            n = CAP;
            l = l.min(CAP);
        }
        let exp = if sender != self.m.admin {
            Expect::Err
        } else if self.oracle_blocks() {
            Expect::Err
        } else {
            Expect::Ok
        };
        let storage_before = self.ch.w.storage.clone();
        let before = self.bank_snapshot();
        let out = self.ch.execute(
            &sender,
            &[],
            ExecuteMsg::ResumeContract {
                total_native_token: Uint128::from(n),
                total_liquid_stake_token: Uint128::from(l),
                total_reward_amount: Uint128::from(r),
            },
        );
        let what = format!("Resume by {sender} n={n} l={l} r={r}");
        self.note(format!("{what} -> {}", out.ok));
        self.stats.bump(if out.ok { "Resume.ok" } else { "Resume.err" });
        let tags: Vec<&'static str> = if sender != self.m.admin { vec!["C08", "C10"] } else { vec!["C10", "C15"] };
        if !self.expect(&tags, &what, exp, &out) {
            if !out.ok {
                self.after_rejected(&what, &before);
            }
            return;
        }
        let was_halted = self.m.halted;
        self.m.halted = false;
        self.m.rebase += n as i128 - n0 as i128;
        self.m.supply_offset += l0 as i128 - l as i128;
        self.m.n = n;
        self.m.l = l;
        self.m.rewards = r;
        if (n, l) != (n0, l0) {
            self.stats.flags.insert("rebased");
        }
        // raw diff: config (only `stopped`) and state (only the three totals)
        let keys: Vec<String> = storage_before.diff_keys(&self.ch.w.storage).iter().map(|k| crate::store::key_namespace(k)).collect();
        let ok_keys = keys.iter().all(|k| k == "config" || k == "state" || !crate::store::known_namespace(k));
        self.chk(&["C10"], ok_keys && before == self.ch.w.bank, || format!("{what}: resume changed {:?}", keys));
        if let (Some(a), Some(b)) = (storage_before.data.get(b"config".as_slice()), self.ch.w.storage.data.get(b"config".as_slice())) {
            let mut ja: serde_json::Value = serde_json::from_slice(a).unwrap_or_default();
            let jb: serde_json::Value = serde_json::from_slice(b).unwrap_or_default();
            ja["stopped"] = serde_json::Value::Bool(false);
            self.chk(&["C10"], ja == jb, || format!("{what}: config changed beyond the halted flag"));
        }
        if let (Some(a), Some(b)) = (storage_before.data.get(b"state".as_slice()), self.ch.w.storage.data.get(b"state".as_slice())) {
            let mut ja: serde_json::Value = serde_json::from_slice(a).unwrap_or_default();
            let jb: serde_json::Value = serde_json::from_slice(b).unwrap_or_default();
            ja["total_native_token"] = serde_json::Value::String(n.to_string());
            ja["total_liquid_stake_token"] = serde_json::Value::String(l.to_string());
            ja["total_reward_amount"] = serde_json::Value::String(r.to_string());
            self.chk(&["C10"], ja == jb, || format!("{what}: state changed beyond the three totals: {jb}"));
        }
        let n_other = out.effects.iter().filter(|e| !matches!(e, Effect::OraclePost { .. })).count();
        self.chk(&["C10"], n_other == 0, || format!("{what}: effects {:?}", out.effects));
        self.check_oracle(&what, &out, (n, l) != (n0, l0));
        if was_halted {
            self.stats.flags.insert("resumed_after_halt");
        }
    }

    pub fn native_cfg(&self) -> UnsafeNativeChainConfig {
        UnsafeNativeChainConfig {
            account_address_prefix: self.m.cfg.nprefix.clone(),
            validator_address_prefix: self.m.cfg.vprefix.clone(),
            token_denom: self.m.cfg.native_token_denom.clone(),
            validators: self.m.cfg.validators.clone(),
            unbonding_period: self.m.cfg.unbonding,
            staker_address: self.m.cfg.staker.clone(),
            reward_collector_address: self.m.cfg.collector.clone(),
        }
    }
    pub fn protocol_cfg(&self) -> UnsafeProtocolChainConfig {
        UnsafeProtocolChainConfig {
            account_address_prefix: self.m.cfg.pprefix.clone(),
            ibc_token_denom: self.m.cfg.staked_denom.clone(),
            ibc_channel_id: self.m.cfg.channel.clone(),
            minimum_liquid_stake_amount: Uint128::from(self.m.cfg.min_stake),
            oracle_address: self.m.cfg.oracle.clone(),
        }
    }
    pub fn fee_cfg(&self) -> UnsafeProtocolFeeConfig {
        UnsafeProtocolFeeConfig { dao_treasury_fee: Uint128::from(self.m.cfg.fee_rate), treasury_address: self.m.cfg.treasury.clone() }
    }

    fn do_config(&mut self, user: &Caller, change: &CfgChange) {
        let sender = self.caller_addr(user);
        let mut next = self.m.cfg.clone();
        let (mut nc, mut pc, mut fc, mut mon, mut bp) = (None, None, None, None, None);
        let mut upper_prefix = false;
        let mut new_prefix_len: Option<usize> = None;
        match change {
            CfgChange::Fee(rate, t) => {
                next.fee_rate = *rate as u128;
                if let Some(t) = t {
                    next.treasury = if *t { Some(self.a.treasury.clone()) } else { None };
                }
                fc = Some(UnsafeProtocolFeeConfig { dao_treasury_fee: Uint128::from(next.fee_rate), treasury_address: next.treasury.clone() });
            }
            CfgChange::FeeHuge(k) => {
                next.fee_rate = match k % 6 {
                    0 => 100_001,
                    1 => 1_000_000,
                    2 => u64::MAX as u128,
                    3 => 1u128 << 100,
                    4 => u128::MAX,
                    _ => 34_028_236_692_093_847,
                };
                fc = Some(UnsafeProtocolFeeConfig { dao_treasury_fee: Uint128::from(next.fee_rate), treasury_address: next.treasury.clone() });
            }
            CfgChange::MinStake(x) => {
                next.min_stake = *x as u128;
                let mut p = self.protocol_cfg();
                p.minimum_liquid_stake_amount = Uint128::from(next.min_stake);
                pc = Some(p);
            }
            CfgChange::Oracle(on) => {
                next.oracle = if *on { Some(self.a.oracle.clone()) } else { None };
                let mut p = self.protocol_cfg();
                p.oracle_address = next.oracle.clone();
                pc = Some(p);
            }
            CfgChange::Monitors(k) => {
                next.monitors = self.a.monitors[..(*k as usize).min(3)].to_vec();
                mon = Some(next.monitors.clone());
            }
            CfgChange::BatchPeriod(x) => {
                next.batch_period = *x as u64;
                bp = Some(next.batch_period);
            }
            CfgChange::Unbonding(x) => {
                next.unbonding = *x as u64;
                let mut n = self.native_cfg();
                n.unbonding_period = next.unbonding;
                nc = Some(n);
            }
            CfgChange::Staker(i) | CfgChange::Collector(i) => {
                let pick = match i % 6 {
                    4 => if matches!(change, CfgChange::Staker(_)) { self.m.cfg.collector.clone() } else { self.m.cfg.staker.clone() },
                    5 => if matches!(change, CfgChange::Staker(_)) { self.a.staker.clone() } else { self.a.collector.clone() },
                    k => self.a.natives[k as usize % self.a.natives.len()].clone(),
                };
                if matches!(change, CfgChange::Staker(_)) {
                    next.staker = pick;
                } else {
                    next.collector = pick;
                }
                let mut n = self.native_cfg();
                n.staker_address = next.staker.clone();
                n.reward_collector_address = next.collector.clone();
                nc = Some(n);
                self.identity_changed = true;
            }
            CfgChange::PeriodHuge(k, which) => {
                let now = self.ch.now_s();
                let v = match k % 4 {
                    0 => u64::MAX,
                    1 => u64::MAX - now,
                    2 => u64::MAX - now - 1,
                    _ => u64::MAX / 2,
                };
                if *which {
                    next.unbonding = v;
                    let mut n = self.native_cfg();
                    n.unbonding_period = v;
                    nc = Some(n);
                } else {
                    next.batch_period = v;
                    bp = Some(v);
                }
            }
            CfgChange::ChannelSpelling(k) => {
                let n = self.a.channel.strip_prefix("channel-").unwrap_or("0").to_string();
                next.channel = format!("channel-{}{}", "0".repeat(1 + (*k as usize % 3)), n);
                let mut p = self.protocol_cfg();
                p.ibc_channel_id = next.channel.clone();
                pc = Some(p);
                self.identity_changed = true;
            }
            CfgChange::ProtocolPrefix(k) => {
                let len = [0usize, 2, 10, 44, 83, 84][*k as usize % 9 % 6];
                // 6..=8: an all-upper-case spelling (stored in lower case) with the punctuation bech32 allows in a prefix
                let newp = match *k as usize % 9 {
                    6 => "MILK_WAY".to_string(),
                    7 => "A@B[C]^D".to_string(),
                    8 => self.a.pprefix.to_uppercase(),
                    _ if len == 0 => self.a.pprefix.clone(),
                    _ => format!("p{}", "q".repeat(len - 1)),
                };
                new_prefix_len = Some(newp.len());
                next.pprefix = newp.to_ascii_lowercase();
                if newp != next.pprefix {
                    self.stats.flags.insert("uppercase_protocol_prefix");
                    upper_prefix = true;
                }
                next.oracle = None;
                let mut p = self.protocol_cfg();
                p.account_address_prefix = newp;
                p.oracle_address = None;
                pc = Some(p);
                self.identity_changed = true;
            }
            CfgChange::Channel(other) => {
                next.channel = if *other { self.a.other_channel.clone() } else { self.a.channel.clone() };
                let mut p = self.protocol_cfg();
                p.ibc_channel_id = next.channel.clone();
                pc = Some(p);
                self.identity_changed = true;
            }
            CfgChange::Identity => {
                nc = Some(self.native_cfg());
                pc = Some(self.protocol_cfg());
                fc = Some(self.fee_cfg());
                mon = Some(self.m.cfg.monitors.clone());
                bp = Some(self.m.cfg.batch_period);
            }
        }
        let exp = if sender != self.m.admin {
            Expect::Err
        } else if new_prefix_len.map(|l| l > 83).unwrap_or(false) {
            Expect::Err
        } else if self.prefix_foreign() && new_prefix_len.is_none() {
            // addresses built under the chain prefix are not valid under the configured one
            Expect::Any
        } else if upper_prefix {
            // C14: accepted prefixes are lower-case; an upper-case spelling may be lower-cased or refused
            Expect::Any
        } else if next.staker == next.collector || next.fee_rate > 100_000 || !deadline_ok(self.ch.now_s(), next.batch_period) || !deadline_ok(self.ch.now_s(), next.unbonding) {
            // well-formed as far as C14 goes, yet an implementation may refuse more than C14 lists (one account in two
            // roles, a fee above 100 %, a period no deadline can be computed from)
            Expect::Any
        } else {
            Expect::Ok
        };
        let before = self.bank_snapshot();
        let out = self.ch.execute(
            &sender,
            &[],
            ExecuteMsg::UpdateConfig { native_chain_config: nc, protocol_chain_config: pc, protocol_fee_config: fc, monitors: mon, batch_period: bp },
        );
        let what = format!("UpdateConfig by {sender} {:?}", change);
        self.note(format!("{what} -> {}", out.ok));
        self.stats.bump(if out.ok { "Config.ok" } else { "Config.err" });
        if !self.expect(&["C08", "C14", "C09"], &what, exp, &out) {
            if !out.ok {
                self.after_rejected(&what, &before);
            }
            return;
        }
        if self.m.cfg.treasury != next.treasury {
            self.stats.flags.insert("treasury_toggled");
        }
        self.m.cfg = next;
        self.chk(&["C14"], out.effects.is_empty() && before == self.ch.w.bank, || format!("{what}: effects {:?}", out.effects));
    }

    fn do_validator(&mut self, user: &Caller, add: bool, sel: u8) {
        let sender = self.caller_addr(user);
        let v = match sel {
            5 => acct(&self.a.nprefix, "not-a-valoper", 20),
            i => self.a.validators[i as usize % self.a.validators.len()].clone(),
        };
        let present = self.m.cfg.validators.contains(&v);
        let well_prefixed = bech32_decode(&v).map(|d| d.hrp == self.m.cfg.vprefix).unwrap_or(false);
        let exp = if sender != self.m.admin {
            Expect::Err
        } else if !well_prefixed || (add && present) || (!add && !present) {
            Expect::Err
        } else {
            Expect::Ok
        };
        let before = self.bank_snapshot();
        let msg = if add { ExecuteMsg::AddValidator { new_validator: v.clone() } } else { ExecuteMsg::RemoveValidator { validator: v.clone() } };
        let out = self.ch.execute(&sender, &[], msg);
        let what = format!("{} {v} by {sender}", if add { "AddValidator" } else { "RemoveValidator" });
        self.note(format!("{what} -> {}", out.ok));
        self.stats.bump(if out.ok { "Validator.ok" } else { "Validator.err" });
        if !self.expect(&["C08", "C14"], &what, exp, &out) {
            if !out.ok {
                self.after_rejected(&what, &before);
            }
            return;
        }
        if add {
            self.m.cfg.validators.push(v);
        } else {
            self.m.cfg.validators.retain(|x| *x != v);
        }
        self.stats.flags.insert("validator_changed");
    }

    fn do_ownership(&mut self, user: &Caller, act: &OwnAct) {
        let sender = self.caller_addr(user);
        let now = self.ch.now_s();
        let before = self.bank_snapshot();
        match act {
            OwnAct::Transfer(_) | OwnAct::TransferBad(_) => {
                let (new_owner, valid) = match act {
                    OwnAct::Transfer(c) => (self.caller_addr(c), true),
                    OwnAct::TransferBad(k) => (self.bad_addr(*k), false),
                    _ => unreachable!(),
                };
                let exp = if sender != self.m.admin {
                    Expect::Err
                } else if !valid {
                    Expect::Err
                } else {
                    Expect::Ok
                };
                let out = self.ch.execute(&sender, &[], ExecuteMsg::TransferOwnership { new_owner: new_owner.clone() });
                let what = format!("TransferOwnership to {new_owner} by {sender} at {now}");
                self.note(format!("{what} -> {}", out.ok));
                self.stats.bump(if out.ok { "Nominate.ok" } else { "Nominate.err" });
                if !self.expect(&["C08", "C12"], &what, exp, &out) {
                    if !out.ok {
                        self.after_rejected(&what, &before);
                    }
                    return;
                }
                if self.m.nominee.is_some() {
                    self.stats.flags.insert("renominated");
                    if self.m.nominee.as_deref() != Some(new_owner.as_str()) {
                        self.m.superseded = self.m.nominee.clone();
                    }
                }
                self.m.nominee = Some(new_owner);
                self.m.earliest = Some(now + WEEK);
            }
            OwnAct::Revoke => {
                // revoking when nothing is pending may succeed (nothing to do) or be refused
                let exp = if sender != self.m.admin { Expect::Err } else if self.m.nominee.is_none() { Expect::Any } else { Expect::Ok };
                let out = self.ch.execute(&sender, &[], ExecuteMsg::RevokeOwnershipTransfer {});
                let what = format!("RevokeOwnershipTransfer by {sender}");
                self.note(format!("{what} -> {}", out.ok));
                self.stats.bump(if out.ok { "Revoke.ok" } else { "Revoke.err" });
                if !self.expect(&["C08", "C12"], &what, exp, &out) {
                    if !out.ok {
                        self.after_rejected(&what, &before);
                    }
                    return;
                }
                if self.m.nominee.is_some() {
                    self.stats.flags.insert("revoked");
                    self.m.superseded = self.m.nominee.clone();
                }
                self.m.nominee = None;
                self.m.earliest = None;
            }
            OwnAct::Accept => {
                let ok = self.m.nominee.as_deref() == Some(sender.as_str()) && self.m.earliest.map(|t| now >= t).unwrap_or(false);
                let open = ok && self.m.earliest == Some(now) && self.subsecond_seen;
                let exp = if open { Expect::Any } else if ok { Expect::Ok } else { Expect::Err };
                if let Some(t) = self.m.earliest {
                    if self.m.nominee.as_deref() == Some(sender.as_str()) && (now == t || now + 1 == t) {
                        self.stats.flags.insert("accept_at_boundary");
                    }
                }
                let out = self.ch.execute(&sender, &[], ExecuteMsg::AcceptOwnership {});
                let what = format!("AcceptOwnership by {sender} at {now} (nominee {:?}, earliest {:?})", self.m.nominee, self.m.earliest);
                self.note(format!("{what} -> {}", out.ok));
                self.stats.bump(if out.ok { "Accept.ok" } else { "Accept.err" });
                if !self.expect(&["C08", "C12"], &what, exp, &out) {
                    if !out.ok {
                        self.after_rejected(&what, &before);
                    }
                    return;
                }
                self.m.former_admin = Some(self.m.admin.clone());
                self.m.admin = sender;
                self.m.nominee = None;
                self.m.earliest = None;
                self.stats.flags.insert("handover_done");
            }
        }
    }

    fn do_advance(&mut self, t: &TimeSel) {
        let now = self.ch.now_s();
        let target = match t {
            TimeSel::Plus(s) => now + *s as u64,
            TimeSel::PendingDue(d) => {
                let due = self.m.batches[&self.m.pending].due.unwrap_or(now);
                (due + *d as u64).saturating_sub(1)
            }
            TimeSel::UnbondDue(i, d) => {
                let subs: Vec<u64> = self.m.batches.values().filter(|b| b.status == BStatus::Submitted).filter_map(|b| b.due).collect();
                if subs.is_empty() {
                    now + 1
                } else {
                    (subs[*i as usize % subs.len()] + *d as u64).saturating_sub(1)
                }
            }
            TimeSel::OwnerDue(d) => match self.m.earliest {
                Some(e) => (e + *d as u64).saturating_sub(1),
                None => now + 10,
            },
            TimeSel::Far => now + 40 * 86400,
            TimeSel::Phase(ns) => {
                let sub = self.ch.time_ns % 1_000_000_000;
                let ns = *ns as u64 % 1_000_000_000;
                let sec = if ns > sub { now } else { now + 1 };
                self.ch.time_ns = sec * 1_000_000_000 + ns;
                self.ch.height += 1;
                self.ch.tx_index = 0;
                self.stats.flags.insert("subsecond_block_time");
                self.subsecond_seen = true;
                self.note(format!("advance {:?} -> {}.{:09}", t, sec, ns));
                return;
            }
        };
        if target > now {
            self.ch.time_ns = target * 1_000_000_000 + (self.ch.time_ns % 1_000_000_000);
            self.ch.height += 1 + (target - now) / 6;
            self.ch.tx_index = 0;
        } else {
            self.ch.height += 1;
            self.ch.tx_index = 0;
        }
        self.note(format!("advance {:?} -> {}", t, self.ch.now_s()));
    }
}
