//! Per-property checks: profile, non-triviality rule, case counts, and any dedicated runner.

use crate::engine::Stats;
use crate::ops::Profile;
use crate::runner::*;

pub struct Tier {
    pub name: String,
    pub thorough: bool,
}

pub fn history_assumptions() -> Vec<String> {
    vec![
        "chain simulator = my reading of wasmd sub-message/reply semantics, ICS-20 escrow/refund and Osmosis ibc-hooks (DESIGN 2.1)".into(),
        "channel id, staked denom and staker address fixed inside an accounting history; amounts <= 10^27, exchange rate kept within [10^-3,10^3] (ops remapped, counted)".into(),
        "bank accepts zero-amount sends (lenient), ICS-20 rejects zero-amount transfers".into(),
        "histories bounded by the profile length; proptest ChaCha RNG seeded from VERIF_SEED".into(),
    ]
}

fn p_c01() -> Profile {
    let mut p = Profile::base("C01");
    p.len = (30, 80);
    p.w_rewards = 10;
    p.w_recover = 9;
    p.w_resolve = 16;
    p.w_burst = 2;
    p.sweep = true;
    p
}
fn nt_c01(s: &Stats) -> bool {
    s.flags.contains("stake_ok")
        && (s.flags.contains("rewards_ok") || s.flags.contains("submit_ok"))
        && s.flags.contains("nonsuccess_outcome")
        && s.flags.contains("recover_ok")
}

fn p_c02() -> Profile {
    let mut p = Profile::base("C02");
    p.len = (40, 90);
    p.w_withdraw = 12;
    p.w_deliver = 10;
    p.w_feewd = 5;
    p.w_unstake = 11;
    p.w_submit = 9;
    p.w_config = 4;
    p.w_burst = 2;
    p
}
fn nt_c02(s: &Stats) -> bool {
    s.get("Deliver.ok") >= 2 && s.flags.contains("deliver_multi_req") && s.flags.contains("deliver_inexact") && s.flags.contains("withdraw_ok")
        && (s.flags.contains("fee_accrued") || s.flags.contains("nonsuccess_outcome"))
}

fn p_c03() -> Profile {
    let mut p = Profile::base("C03");
    p.w_stake = 22;
    p.w_rewards = 9;
    p.w_resume = 3;
    p.w_burst = 2;
    p.w_recover = 9;
    p.len = (25, 70);
    p
}
fn nt_c03(s: &Stats) -> bool {
    s.flags.contains("stake_native_rate_ne_1") || (s.flags.contains("submit_multi") && s.flags.contains("submit_ok"))
}

fn p_c05() -> Profile {
    let mut p = Profile::base("C05");
    p.len = (40, 90);
    p.w_unstake = 26;
    p.w_submit = 4;
    p.w_deliver = 7;
    p.w_withdraw = 18;
    p.w_stake = 8;
    p.w_resolve = 6;
    p.w_advance = 6;
    p.w_recover = 2;
    p.w_stray = 0;
    p.w_churn = 1;
    p.fail_injection = false;
    p
}
fn nt_c05(s: &Stats) -> bool {
    s.flags.contains("deliver_inexact_3req") && s.flags.contains("repeated_unstake") && s.get("Withdraw.ok") >= 2
}

fn p_c06() -> Profile {
    let mut p = Profile::base("C06");
    p.len = (40, 90);
    p.w_submit = 14;
    p.w_deliver = 12;
    p.w_advance = 20;
    p.w_unstake = 12;
    p.w_stake = 9;
    p.w_config = 4;
    p.w_churn = 1;
    p
}
fn nt_c06(s: &Stats) -> bool {
    s.flags.contains("submit_at_boundary") || s.flags.contains("deliver_at_boundary")
}

fn p_c07() -> Profile {
    let mut p = Profile::base("C07");
    p.len = (40, 90);
    p.w_stake = 16;
    p.w_resolve = 20;
    p.w_recover = 14;
    p.w_stray = 5;
    p.w_rewards = 7;
    p.w_traffic = 4;
    p.w_withdraw = 3;
    p.w_deliver = 3;
    p.w_burst = 3;
    p
}
fn nt_c07(s: &Stats) -> bool {
    (s.flags.contains("recover_merge") && s.flags.contains("nonsuccess_outcome") && s.get("Resolve.Ack") >= 1)
        || s.flags.contains("recover_forced")
        || s.flags.contains("submission_failure")
        || s.flags.contains("stray")
}

fn p_c11() -> Profile {
    let mut p = Profile::base("C11");
    p.len = (20, 50);
    p.w_rewards = 25;
    p.w_feewd = 10;
    p.w_config = 10;
    p.w_stake = 8;
    p.w_withdraw = 2;
    p.w_deliver = 2;
    p.w_recover = 2;
    p.huge_fees = true;
    p.sweep = true;
    p
}
fn nt_c11(s: &Stats) -> bool {
    s.flags.contains("fee_remainder") || s.flags.contains("fee_withdraw_near_all") || (s.flags.contains("treasury_toggled") && s.flags.contains("rewards_ok"))
}

fn p_c15() -> Profile {
    let mut p = Profile::base("C15");
    p.len = (15, 50);
    p.w_config = 5;
    p.w_resume = 6;
    p.w_breaker = 2;
    p
}
fn nt_c15(s: &Stats) -> bool {
    s.flags.contains("stake_ok") && (s.flags.contains("rewards_ok") || s.flags.contains("submit_ok") || s.flags.contains("rebased"))
}

fn p_c16() -> Profile {
    let mut p = Profile::base("C16");
    p.len = (30, 90);
    p.hostile_callers = true;
    p.huge_fees = true;
    p.sweep = true;
    p.extreme_periods = true;
    p.identity_changes = true;
    p.w_config = 6;
    p.w_query = 6;
    p.w_owner = 3;
    p.w_validator = 2;
    p.w_breaker = 2;
    p.w_resume = 3;
    p.w_oracle_toggle = 1;
    p
}
fn nt_c16(s: &Stats) -> bool {
    s.counters.iter().any(|(k, v)| k.ends_with(".err") && *v > 0)
}

fn p_c04() -> Profile {
    let mut p = Profile::base("C04");
    p.w_stake = 24;
    p.w_rewards = 9;
    p.w_resume = 3;
    p.w_submit = 9;
    p.w_unstake = 10;
    p.len = (25, 70);
    p
}
fn nt_c04(s: &Stats) -> bool {
    (s.flags.contains("stake_rate_ne_1") || s.flags.contains("submit_rate_ne_1"))
        && (s.flags.contains("stake_threshold_reject") || s.flags.contains("stake_at_expected") || s.flags.contains("stake_at_min"))
}

fn p_c09() -> Profile {
    let mut p = Profile::base("C09");
    p.len = (25, 60);
    p.w_deliver = 16;
    p.w_rewards = 16;
    p.w_config = 10;
    p.identity_changes = true;
    p.w_recover = 3;
    p.w_resolve = 8;
    p
}
fn nt_c09(s: &Stats) -> bool {
    (s.flags.contains("impostor_delivery") || s.flags.contains("impostor_rewards")) && (s.flags.contains("deliver_ok") || s.flags.contains("rewards_ok"))
}

fn p_c17() -> Profile {
    let mut p = Profile::base("C17");
    p.len = (40, 90);
    p.w_query = 25;
    p.w_unstake = 16;
    p.w_withdraw = 14;
    p.w_submit = 8;
    p.w_deliver = 8;
    p.w_stake = 8;
    p.w_churn = 1;
    p.fail_injection = false;
    p
}
fn nt_c17(s: &Stats) -> bool {
    s.get("Query") >= 3 && s.get("Withdraw.ok") >= 1 && s.get("Submit.ok") >= 2 && s.flags.contains("repeated_unstake")
}

pub fn p_c12() -> Profile {
    let mut p = Profile::base("C12");
    p.len = (15, 60);
    p.w_owner = 30;
    p.w_advance = 18;
    p.w_resume = 6;
    p.w_breaker = 3;
    p.w_config = 6;
    p.w_validator = 2;
    p.w_feewd = 3;
    p.w_stake = 6;
    p.w_unstake = 3;
    p.w_submit = 2;
    p.w_withdraw = 2;
    p.w_deliver = 2;
    p.w_rewards = 3;
    p.w_resolve = 3;
    p.w_recover = 2;
    p.w_stray = 0;
    p
}
pub fn nt_c12(s: &Stats) -> bool {
    s.flags.contains("accept_at_boundary") && (s.flags.contains("renominated") || s.flags.contains("revoked") || s.flags.contains("handover_done")) && (s.get("Resume.ok") + s.get("Config.ok") + s.get("Breaker.ok") > 0)
}

pub struct HistSpec {
    pub prop: &'static str,
    pub profile: Profile,
    pub nontrivial: fn(&Stats) -> bool,
    pub rule: &'static str,
    pub quick: u64,
    pub thorough: u64,
}

pub fn hist_spec(prop: &str) -> Option<HistSpec> {
    Some(match prop {
        "C01" => HistSpec { prop: "C01", profile: p_c01(), nontrivial: nt_c01, quick: 4000, thorough: 200_000,
            rule: "history of 30-80 generated ops (accounting profile); non-trivial = >=1 successful stake, >=1 successful reward or batch submission, >=1 error-ack/timeout and >=1 successful recovery; distinct by hash of the concrete executed op sequence" },
        "C02" => HistSpec { prop: "C02", profile: p_c02(), nontrivial: nt_c02, quick: 4000, thorough: 200_000,
            rule: "history of 40-90 ops; non-trivial = >=2 batches received, one of them with >=2 requesters, >=1 short or generous delivery, >=1 withdrawal, and a fee accrual or an outstanding refund; distinct by executed-op hash" },
        "C03" => HistSpec { prop: "C03", profile: p_c03(), nontrivial: nt_c03, quick: 4000, thorough: 200_000,
            rule: "history of 25-70 stake-heavy ops; non-trivial = a successful stake to a native-chain recipient at an exchange rate != 1, or a successful submission of a batch with >=2 requesters; distinct by executed-op hash" },
        "C04" => HistSpec { prop: "C04", profile: p_c04(), nontrivial: nt_c04, quick: 2000, thorough: 100_000,
            rule: "(a) pure cases (N, L, amount) over the full 128-bit space, boundary-biased and constructed on rounding boundaries; non-trivial = division remainder != 0 or constructed boundary case; distinct by value hash. (b) stake-heavy histories; non-trivial = a stake/submission at rate != 1 plus a stake on a threshold (minimum, expected_mint_amount, zero-mint guard); distinct by executed-op hash" },
        "C09" => HistSpec { prop: "C09", profile: p_c09(), nontrivial: nt_c09, quick: 2000, thorough: 100_000,
            rule: "(a) derivation cases: channel ids over u64, native senders under generated prefixes with 20/32-byte payloads, protocol prefixes, plus an adversarially close second pair; every case is non-trivial, distinct by value hash. (b) histories with impostor deliveries and UpdateConfig changes of channel/staker/collector; non-trivial = an impostor attempt and an authentic accepted delivery in one history" },
        "C17" => HistSpec { prop: "C17", profile: p_c17(), nontrivial: nt_c17, quick: 2000, thorough: 100_000,
            rule: "(a) synthetic stores: up to 40 batches / 30 packets with ids drawn from small ranges, gaps, powers of two and u64 extremes, all statuses, and up to 20 (start_after, limit>=1, status) walks each over Batches and IbcQueue plus BatchesByIds lists with repeats and unknown ids; non-trivial = a walk of >=3 pages whose status filter skips elements inside a page, or >=3 pages of the packet queue, or an id list mixing existing and unknown ids; distinct by case hash. (b) query-heavy histories in which UnstakeRequests of every user is compared with the model after every step; non-trivial = >=3 query ops, >=2 submitted batches, a repeated unstake and a withdrawal" },
        "C05" => HistSpec { prop: "C05", profile: p_c05(), nontrivial: nt_c05, quick: 4000, thorough: 200_000,
            rule: "history of 40-90 unstake/submit/deliver/withdraw-heavy ops; non-trivial = a batch with >=3 requesters delivered with received != expected, >=1 repeated unstake by one account in one batch, >=2 successful withdrawals; distinct by executed-op hash" },
        "C06" => HistSpec { prop: "C06", profile: p_c06(), nontrivial: nt_c06, quick: 4000, thorough: 200_000,
            rule: "history of 40-90 ops with short periods; non-trivial = a SubmitBatch or operator delivery attempted exactly at, or one second before, its deadline; distinct by executed-op hash" },
        "C07" => HistSpec { prop: "C07", profile: p_c07(), nontrivial: nt_c07, quick: 4000, thorough: 200_000,
            rule: "history of 40-90 IBC-heavy ops; non-trivial = (a recovery merging >=2 packets after >=1 non-success and >=1 success outcome) or a forced recovery or an injected submission failure or a stray callback; distinct by executed-op hash" },
        "C11" => HistSpec { prop: "C11", profile: p_c11(), nontrivial: nt_c11, quick: 6000, thorough: 300_000,
            rule: "history of 20-50 reward-heavy ops with fee rates 0..100000 and beyond; non-trivial = a fee division with non-zero remainder, or a FeeWithdraw within one unit of the accrued balance, or a treasury toggle with a successful reward; distinct by executed-op hash" },
        "C15" => HistSpec { prop: "C15", profile: p_c15(), nontrivial: nt_c15, quick: 2500, thorough: 150_000,
            rule: "history run with and without an oracle; non-trivial = a successful stake plus a later rate-changing transaction (reward, submission or re-basing resume); distinct by executed-op hash" },
        "C16" => HistSpec { prop: "C16", profile: p_c16(), nontrivial: nt_c16, quick: 6000, thorough: 300_000,
            rule: "history of 30-90 ops with hostile callers, huge fee rates, extreme selectors, queries; non-trivial = at least one call returned an error (guarded unwrap sites exercised); distinct by executed-op hash" },
        _ => return None,
    })
}

pub fn check_history(prop: &str, thorough: bool, seed: u64) -> Option<Report> {
    let spec = hist_spec(prop)?;
    let mut rep = Report::new(spec.prop, if thorough { "thorough" } else { "quick" }, seed, spec.rule);
    rep.assumptions = history_assumptions();
    let cases = if thorough { spec.thorough } else { spec.quick };
    let out = run_histories(spec.prop, &spec.profile, cases, seed, 1, spec.nontrivial);
    rep.absorb(out);
    match prop {
        "C04" => {
            rep.absorb(crate::props_pure::check_c04_pure(if thorough { 50_000_000 } else { 1_000_000 }, seed));
            rep.assumptions.push("pure cases whose reference result exceeds 128 bits are skipped (the property says 'representable')".into());
        }
        "C15" => {
            rep.absorb(crate::props_extra::run_c15_diff(if thorough { 150_000 } else { 2500 }, seed));
            rep.assumptions.push("differential part: the same history with and without an oracle address must give identical outcomes, storage (except the address) and ledgers, and post nothing".into());
        }
        "C05" => {
            rep.absorb(crate::props_extra::run_c05_perm(if thorough { 100_000 } else { 2000 }, seed, &spec.profile));
            rep.assumptions.push("metamorphic part: from the state reached by a history, every received batch with >=2 open requests is withdrawn in three different orders on copies; per-user payouts must coincide".into());
        }
        "C16" => {
            rep.absorb(crate::props_extra::run_hostile(if thorough { 200_000 } else { 3000 }, seed, &spec.profile));
            rep.absorb(crate::props_extra::run_treasury_hostile(if thorough { 1_000_000 } else { 20_000 }, seed));
            rep.assumptions.push("hostile part: 5-40 single calls (reply with unknown ids / undecodable data, stray sudo, every execute variant with extreme arguments and fund sets from 10 kinds of sender, all queries with extreme cursors, migrate on arbitrary stored versions, byte-mutated JSON into every message type) on copies of a reached state; resumed totals kept inside the stated rate domain".into());
        }
        "C17" => {
            rep.absorb(crate::props_c17::check_c17_pages(if thorough { 1_000_000 } else { 20_000 }, seed));
        }
        "C09" => {
            rep.absorb(crate::props_pure::check_c09_pure(if thorough { 10_000_000 } else { 300_000 }, seed));
            rep.assumptions.push("reference derivation = own SHA-256 + own bech32 encoder, validated against FIPS 180-4 and BIP-173 vectors at start-up; injectivity beyond the string level rests on SHA-256".into());
        }
        _ => {}
    }
    Some(rep)
}
