//! Drivers shared by all checks: proptest runners on worker threads, evidence aggregation,
//! replay files, known-findings handling.

use crate::engine::{Engine, Stats, Violation};
use crate::ops::{case_strategy, Case, Profile};
use proptest::strategy::Strategy;
use proptest::test_runner::{Config, FileFailurePersistence, RngAlgorithm, RngSeed, TestCaseError, TestError, TestRunner};
use serde_json::json;
use std::collections::{BTreeMap, BTreeSet};
use std::sync::{Arc, Mutex};
use std::time::Instant;

pub const VERIF: &str = "/verif";

pub fn seed_from_env() -> u64 {
    std::env::var("VERIF_SEED").ok().and_then(|s| s.parse::<u64>().ok()).unwrap_or(20261004)
}

pub fn workers() -> usize {
    std::env::var("VERIF_WORKERS").ok().and_then(|s| s.parse().ok()).unwrap_or(16)
}

pub fn pt_config(cases: u32, seed: u64) -> Config {
    let _ = FileFailurePersistence::Off;
    Config {
        cases,
        max_local_rejects: 65_536,
        max_global_rejects: 1024,
        max_flat_map_regens: 1_000_000,
        failure_persistence: None,
        source_file: None,
        test_name: None,
        max_shrink_time: 0,
        max_shrink_iters: 4000,
        max_default_size_range: 100,
        result_cache: proptest::test_runner::noop_result_cache,
        verbose: 0,
        rng_algorithm: RngAlgorithm::ChaCha,
        rng_seed: RngSeed::Fixed(seed),
        ..Config::default()
    }
}

/// Aggregated coverage facts of one check run.
#[derive(Default, Debug, Clone)]
pub struct Agg {
    pub evaluations: u64,
    pub nontrivial: BTreeSet<u64>,
    pub counters: BTreeMap<String, u64>,
    pub flags: BTreeMap<String, u64>,
    pub samples: Vec<serde_json::Value>,
    pub foreign_divergences: u64,
    pub steps: u64,
    pub remapped: u64,
    pub frozen: bool,
    pub extra: BTreeMap<String, serde_json::Value>,
}

impl Agg {
    pub fn absorb(&mut self, o: &Agg) {
        self.evaluations += o.evaluations;
        self.nontrivial.extend(o.nontrivial.iter().copied());
        for (k, v) in &o.counters {
            *self.counters.entry(k.clone()).or_insert(0) += v;
        }
        for (k, v) in &o.flags {
            *self.flags.entry(k.clone()).or_insert(0) += v;
        }
        for s in &o.samples {
            if self.samples.len() < 3 {
                self.samples.push(s.clone());
            }
        }
        self.foreign_divergences += o.foreign_divergences;
        self.steps += o.steps;
        self.remapped += o.remapped;
        for (k, v) in &o.extra {
            self.extra.insert(k.clone(), v.clone());
        }
    }
    pub fn add_stats(&mut self, s: &Stats, nontrivial: bool) {
        self.evaluations += 1;
        self.steps += s.steps as u64;
        self.remapped += s.remapped;
        for (k, v) in &s.counters {
            *self.counters.entry(k.clone()).or_insert(0) += v;
        }
        for f in &s.flags {
            *self.flags.entry(f.to_string()).or_insert(0) += 1;
        }
        if nontrivial {
            self.nontrivial.insert(s.trace_hash);
        }
    }
}

#[derive(Debug, Clone)]
pub struct Failure {
    pub message: String,
    pub replay: serde_json::Value,
}

pub struct RunOutput {
    pub agg: Agg,
    pub failures: Vec<Failure>,
}

pub struct CaseResult {
    pub stats: Stats,
    pub viol: Option<Violation>,
    pub log: Vec<String>,
}

pub fn run_case(case: &Case, keep_log: bool) -> CaseResult {
    run_case_for(case, keep_log, None)
}

/// With `wanted`, only comparisons of that property end the history (see Engine::wanted).
pub fn run_case_for(case: &Case, keep_log: bool, wanted: Option<&'static str>) -> CaseResult {
    let mut e = match Engine::new_for(&case.setup, wanted) {
        Ok(e) => e,
        Err(msg) if msg.starts_with("benign:") => {
            let mut stats = Stats::default();
            stats.bump("setup_rejected_benign");
            return CaseResult { stats, viol: None, log: vec![msg] };
        }
        Err(msg) => {
            return CaseResult {
                stats: Stats::default(),
                viol: Some(Violation { tags: vec!["C14", "C16"], step: 0, msg }),
                log: vec![],
            }
        }
    };
    e.keep_log = keep_log;
    for op in &case.ops {
        if e.viol.is_some() {
            break;
        }
        if e.first_foreign.is_some() {
            // model and code have diverged under another property: the harness may hit states it does not
            // expect; a harness panic here only ends the history
            let r = std::panic::catch_unwind(std::panic::AssertUnwindSafe(|| e.run_op(op)));
            if r.is_err() {
                break;
            }
        } else {
            e.run_op(op);
        }
    }
    if e.first_foreign.is_some() {
        e.stats.bump("foreign_divergence");
    }
    CaseResult { stats: e.stats, viol: e.viol, log: e.log }
}

/// Generic multi-threaded proptest driver.  `test` returns Ok(()) or Err(message); it receives a
/// per-thread aggregator which is frozen at the first failure (shrinking re-runs are not counted).
pub fn drive<T, S, F>(strategy_fn: impl Fn() -> S + Sync, total_cases: u64, seed: u64, salt: u64, test: F) -> RunOutput
where
    T: std::fmt::Debug + Clone + serde::Serialize + 'static,
    S: Strategy<Value = T>,
    F: Fn(&T, &mut Agg) -> Result<(), String> + Sync,
{
    let nw = workers().max(1) as u64;
    let per = ((total_cases + nw - 1) / nw).max(1);
    let out: Arc<Mutex<(Agg, Vec<Failure>)>> = Arc::new(Mutex::new((Agg::default(), vec![])));
    std::thread::scope(|sc| {
        for w in 0..nw {
            let out = out.clone();
            let test = &test;
            let strategy_fn = &strategy_fn;
            sc.spawn(move || {
                let wseed = seed.wrapping_mul(0x9E3779B97F4A7C15).wrapping_add(salt.wrapping_mul(1_000_003)).wrapping_add(w);
                let mut runner = TestRunner::new(pt_config(per as u32, wseed));
                let agg = std::cell::RefCell::new(Agg::default());
                let strat = strategy_fn();
                let res = runner.run(&strat, |v| {
                    let mut a = agg.borrow_mut();
                    if a.frozen {
                        // shrinking: evaluate without counting
                        let mut scratch = Agg::default();
                        return test(&v, &mut scratch).map_err(TestCaseError::fail);
                    }
                    if a.samples.len() < 1 {
                        if let Ok(j) = serde_json::to_value(&v) {
                            a.samples.push(j);
                        }
                    }
                    // a panic of the harness itself (not of the code under test, which runs inside
                    // `sim::guarded`) is a harness defect: inconclusive, never a violation
                    let r = std::panic::catch_unwind(std::panic::AssertUnwindSafe(|| test(&v, &mut a)));
                    match r {
                        Ok(Ok(())) => Ok(()),
                        Ok(Err(m)) => {
                            a.frozen = true;
                            Err(TestCaseError::fail(m))
                        }
                        Err(_) => {
                            let j = serde_json::to_string(&v).unwrap_or_default();
                            a.extra.insert("harness_error".into(), json!(format!("harness panicked on case {}", &j[..j.len().min(2000)])));
                            Ok(())
                        }
                    }
                });
                let mut g = out.lock().unwrap();
                g.0.absorb(&agg.borrow());
                match res {
                    Ok(()) => {}
                    Err(TestError::Fail(reason, minimal)) => {
                        g.1.push(Failure {
                            message: reason.message().to_string(),
                            replay: serde_json::to_value(&minimal).unwrap_or(serde_json::Value::Null),
                        });
                    }
                    Err(TestError::Abort(reason)) => {
                        g.0.extra.insert("aborted".into(), json!(reason.message().to_string()));
                    }
                }
            });
        }
    });
    let g = Arc::try_unwrap(out).unwrap().into_inner().unwrap();
    RunOutput { agg: g.0, failures: g.1 }
}

/// Run histories under `profile`, reporting only violations tagged with `prop`.
pub fn run_histories(
    prop: &'static str,
    profile: &Profile,
    cases: u64,
    seed: u64,
    salt: u64,
    nontrivial: fn(&Stats) -> bool,
) -> RunOutput {
    drive(
        || case_strategy(profile),
        cases,
        seed,
        salt,
        |case: &Case, agg: &mut Agg| {
            let r = run_case_for(case, false, Some(prop));
            if let Some(v) = &r.viol {
                return Err(format!("step {}: {}", v.step, v.msg));
            }
            let foreign = r.stats.get("foreign_divergence") > 0;
            if foreign {
                agg.foreign_divergences += 1;
            }
            agg.add_stats(&r.stats, !foreign && nontrivial(&r.stats));
            Ok(())
        },
    )
}

// ------------------------------------------------------------------ findings / evidence / exit

#[derive(serde::Deserialize, Debug, Clone)]
pub struct KnownFinding {
    pub property: String,
    /// "open" findings suppress matching violations; "fixed" entries suppress nothing
    pub status: String,
    /// substring that must occur in the violation message (the failing comparison / panic site)
    pub signature: String,
    #[serde(default)]
    pub what: String,
}

pub fn load_known() -> Vec<KnownFinding> {
    let p = format!("{VERIF}/known_findings.json");
    match std::fs::read_to_string(&p) {
        Ok(s) => {
            let v: serde_json::Value = serde_json::from_str(&s).unwrap_or(json!({}));
            serde_json::from_value(v.get("findings").cloned().unwrap_or(json!([]))).unwrap_or_default()
        }
        Err(_) => vec![],
    }
}

pub fn fnv_pub(s: &str) -> u64 {
    fnv(s)
}

fn fnv(s: &str) -> u64 {
    let mut h: u64 = 0xcbf29ce484222325;
    for b in s.bytes() {
        h ^= b as u64;
        h = h.wrapping_mul(0x100000001b3);
    }
    h
}

pub struct Report {
    pub prop: &'static str,
    pub tier: String,
    pub seed: u64,
    pub rule: String,
    pub assumptions: Vec<String>,
    pub agg: Agg,
    pub failures: Vec<Failure>,
    pub started: Instant,
    pub min_nontrivial: u64,
}

impl Report {
    pub fn new(prop: &'static str, tier: &str, seed: u64, rule: &str) -> Report {
        Report {
            prop,
            tier: tier.to_string(),
            seed,
            rule: rule.to_string(),
            assumptions: vec![],
            agg: Agg::default(),
            failures: vec![],
            started: Instant::now(),
            min_nontrivial: 2,
        }
    }
    pub fn absorb(&mut self, o: RunOutput) {
        self.agg.absorb(&o.agg);
        self.failures.extend(o.failures);
    }

    /// Writes evidence, prints VIOLATION / KNOWN-FINDING lines, returns the process exit code.
    pub fn finish(mut self) -> i32 {
        let known = load_known();
        let mut unknown: Vec<(Failure, String)> = vec![];
        let mut known_hit: BTreeSet<String> = BTreeSet::new();
        let mut seen_msgs: BTreeSet<u64> = BTreeSet::new();
        for f in std::mem::take(&mut self.failures) {
            // workers often shrink to the same minimal failure: report each message once, at most 4
            if !seen_msgs.insert(fnv(&f.message)) || unknown.len() >= 4 {
                continue;
            }
            let k = known.iter().find(|k| k.property == self.prop && k.status == "open" && f.message.contains(&k.signature));
            match k {
                Some(k) => {
                    known_hit.insert(format!("{} [{}]", k.what, k.signature));
                }
                None => {
                    let name = format!("{}-{}-{:016x}.json", self.prop, self.seed, fnv(&f.message));
                    let path = format!("{VERIF}/replays/{name}");
                    let body = json!({"property": self.prop, "message": f.message, "case": f.replay});
                    let _ = std::fs::create_dir_all(format!("{VERIF}/replays"));
                    let _ = std::fs::write(&path, serde_json::to_string_pretty(&body).unwrap());
                    unknown.push((f, path));
                }
            }
        }
        let wall = self.started.elapsed().as_secs_f64();
        let mut coverage = serde_json::Map::new();
        coverage.insert("evaluations".into(), json!(self.agg.evaluations));
        coverage.insert("distinct_nontrivial".into(), json!(self.agg.nontrivial.len()));
        coverage.insert("rule".into(), json!(self.rule));
        coverage.insert("samples".into(), json!(self.agg.samples));
        coverage.insert("steps_executed".into(), json!(self.agg.steps));
        coverage.insert("op_outcome_distribution".into(), json!(self.agg.counters));
        coverage.insert("histories_with_class".into(), json!(self.agg.flags));
        coverage.insert("ops_remapped_into_domain".into(), json!(self.agg.remapped));
        coverage.insert("histories_cut_short_by_other_property_divergence".into(), json!(self.agg.foreign_divergences));
        coverage.insert("build_feature".into(), json!(if cfg!(feature = "miniwasm") { "miniwasm" } else { "default(osmosis)" }));
        for (k, v) in &self.agg.extra {
            coverage.insert(k.clone(), v.clone());
        }
        let ev = json!({
            "property_id": self.prop,
            "tier": self.tier,
            "seed": self.seed,
            "level": "exploration",
            "coverage": coverage,
            "assumptions": self.assumptions,
            "wall_s": wall,
            "violations": unknown.len(),
            "known_findings_hit": known_hit.iter().collect::<Vec<_>>(),
        });
        let evdir = std::env::var("VERIF_EVIDENCE_DIR").unwrap_or(format!("{VERIF}/evidence"));
        let _ = std::fs::create_dir_all(&evdir);
        let suffix = if cfg!(feature = "miniwasm") { ".miniwasm" } else { "" };
        let evpath = format!("{evdir}/{}{}.json", self.prop, suffix);
        let _ = std::fs::write(&evpath, serde_json::to_string_pretty(&ev).unwrap());
        for k in &known_hit {
            println!("KNOWN-FINDING: property={} {}", self.prop, k);
        }
        println!(
            "{} {}: {} cases, {} distinct non-trivial, {} steps, {:.1}s, {} violation(s)",
            self.prop,
            self.tier,
            self.agg.evaluations,
            self.agg.nontrivial.len(),
            self.agg.steps,
            wall,
            unknown.len()
        );
        if !unknown.is_empty() {
            for (f, path) in &unknown {
                println!("  {}", f.message.replace('\n', "\n    "));
                println!("VIOLATION property={} replay={}", self.prop, path);
            }
            return 1;
        }
        if let Some(h) = self.agg.extra.get("harness_error") {
            println!("HARNESS-ERROR (inconclusive): {h}");
            return 2;
        }
        if (self.agg.nontrivial.len() as u64) < self.min_nontrivial {
            println!("INCONCLUSIVE: only {} distinct non-trivial cases (generator problem)", self.agg.nontrivial.len());
            return 2;
        }
        0
    }
}
