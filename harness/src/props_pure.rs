//! C04 (exchange-rate arithmetic) and C09 (ibc-hooks sender derivation): for-all-inputs checks of
//! pure functions against independent references.

use crate::crypto::{bech32_encode, hooks_sender, sha256};
use crate::runner::*;
use crate::sim::guarded;
use crate::u256::{mul_div_floor, U256};
use cosmwasm_std::Uint128;
use proptest::prelude::*;
use serde::Serialize;
use staking::helpers::{compute_mint_amount, compute_unbond_amount, derive_intermediate_sender};

// ------------------------------------------------------------------ C04

#[derive(Clone, Debug, Serialize, serde::Deserialize)]
pub struct RateCase {
    pub n: u128,
    pub l: u128,
    pub x: u128,
    /// 0 = raw, 1 = x replaced by ceil(k*n/l)+d-1 (mint boundary), 2 = x replaced by ceil(k*l/n)+d-1 (unbond boundary)
    pub mode: u8,
    pub k: u64,
    pub d: u8,
}

fn biased_u128() -> BoxedStrategy<u128> {
    prop_oneof![
        1 => Just(0u128),
        1 => Just(1u128),
        1 => Just(u128::MAX),
        4 => (0u32..128, 0u8..3).prop_map(|(k, d)| (1u128 << k).wrapping_add(d as u128).wrapping_sub(1)),
        4 => (0u32..39, 1u128..10).prop_map(|(k, m)| m.saturating_mul(10u128.pow(k))),
        3 => any::<u128>(),
        3 => any::<u64>().prop_map(|x| x as u128),
        3 => (any::<u64>(), 0u32..64).prop_map(|(x, s)| (x as u128) << s),
        2 => 1u128..100000,
    ]
    .boxed()
}

pub fn rate_case() -> BoxedStrategy<RateCase> {
    (biased_u128(), biased_u128(), biased_u128(), prop_oneof![3 => Just(0u8), 2 => Just(1u8), 2 => Just(2u8)], 1u64..1_000_000, 0u8..3)
        .prop_map(|(n, l, x, mode, k, d)| RateCase { n, l, x, mode, k, d })
        .boxed()
}

fn ceil_mul_div(k: u128, a: u128, b: u128) -> Option<u128> {
    if b == 0 {
        return None;
    }
    mul_div_floor(k, a, b).map(|(q, r)| q.saturating_add((r != 0) as u128))
}

/// Returns Err(message) on violation, Ok(nontrivial) otherwise.
pub fn check_rate_case(c: &RateCase) -> Result<bool, String> {
    let (n, l) = (c.n, c.l);
    let x = match c.mode {
        1 => ceil_mul_div(c.k as u128, n, l).map(|v| v.saturating_add(c.d as u128).saturating_sub(1)).unwrap_or(c.x),
        2 => ceil_mul_div(c.k as u128, l, n).map(|v| v.saturating_add(c.d as u128).saturating_sub(1)).unwrap_or(c.x),
        _ => c.x,
    };
    let mut nontrivial = false;
    // ---- mint: floor(x*l/n), 1:1 when nothing is staked
    let mint_ref = if n == 0 { Some((x, 0)) } else { mul_div_floor(x, l, n) };
    if let Some((m, rem)) = mint_ref {
        let real = guarded(|| compute_mint_amount(Uint128::new(n), Uint128::new(l), Uint128::new(x)));
        match real {
            Err(p) => return Err(format!("compute_mint_amount(N={n}, L={l}, a={x}) panicked ({}) although the result {m} is representable", p.message)),
            Ok(r) if r.u128() != m => return Err(format!("compute_mint_amount(N={n}, L={l}, a={x}) = {r}, reference floor(a*L/N) = {m}")),
            Ok(_) => {}
        }
        if rem != 0 {
            nontrivial = true;
        }
        // no dilution: (N+a)/(L+m) >= N/L  <=>  a*L >= N*m
        if n != 0 && U256::mul(x, l) < U256::mul(n, m) {
            return Err(format!("mint dilutes holders: a*L < N*m for N={n} L={l} a={x} m={m}"));
        }
        // round trip: stake a then immediately unstake the minted amount returns <= a
        if let (Some(n2), Some(l2)) = (n.checked_add(x), l.checked_add(m)) {
            if m != 0 && l2 != 0 {
                if let Some((back_ref, _)) = mul_div_floor(n2, m, l2) {
                    let back = guarded(|| compute_unbond_amount(Uint128::new(n2), Uint128::new(l2), Uint128::new(m)));
                    match back {
                        Err(p) => return Err(format!("compute_unbond_amount(N={n2}, L={l2}, b={m}) panicked: {}", p.message)),
                        Ok(b) if b.u128() != back_ref => return Err(format!("compute_unbond_amount(N={n2}, L={l2}, b={m}) = {b}, reference {back_ref}")),
                        Ok(b) => {
                            // (N+a)*m <= a*(L+m)  <=>  N*m <= a*L, which floor rounding of m guarantees
                            if b.u128() > x {
                                return Err(format!("stake then unstake returns more than paid: paid {x}, minted {m}, unbonds {b} (N={n}, L={l})"));
                            }
                        }
                    }
                }
            }
        }
    }
    // ---- unbond: floor(n*x/l), 0 for an empty batch
    if x == 0 {
        let real = guarded(|| compute_unbond_amount(Uint128::new(n), Uint128::new(l), Uint128::zero()));
        match real {
            Ok(r) if r.is_zero() => {}
            other => return Err(format!("compute_unbond_amount(N={n}, L={l}, b=0) = {:?}, expected 0", other.map(|r| r.u128()))),
        }
    } else if l != 0 && x <= l {
        if let Some((u, rem)) = mul_div_floor(n, x, l) {
            let real = guarded(|| compute_unbond_amount(Uint128::new(n), Uint128::new(l), Uint128::new(x)));
            match real {
                Err(p) => return Err(format!("compute_unbond_amount(N={n}, L={l}, b={x}) panicked ({}) although the result {u} is representable", p.message)),
                Ok(r) if r.u128() != u => return Err(format!("compute_unbond_amount(N={n}, L={l}, b={x}) = {r}, reference floor(N*b/L) = {u}")),
                Ok(_) => {}
            }
            if rem != 0 {
                nontrivial = true;
            }
            // remaining holders are not diluted: (N-u)/(L-b) >= N/L <=> N*b >= u*L ; and u <= N
            if U256::mul(n, x) < U256::mul(u, l) || u > n {
                return Err(format!("submission lowers the redemption rate: N={n} L={l} b={x} u={u}"));
            }
        }
    }
    if c.mode != 0 {
        nontrivial = true;
    }
    Ok(nontrivial)
}

pub fn check_c04_pure(cases: u64, seed: u64) -> RunOutput {
    drive(rate_case, cases, seed, 4, |c: &RateCase, agg: &mut Agg| {
        let r = check_rate_case(c)?;
        agg.evaluations += 1;
        if r {
            let h = sha256(format!("{:?}", c).as_bytes());
            agg.nontrivial.insert(u64::from_le_bytes(h[..8].try_into().unwrap()));
        }
        *agg.counters.entry(format!("pure.mode{}", c.mode)).or_insert(0) += 1;
        Ok(())
    })
}

// ------------------------------------------------------------------ C09

#[derive(Clone, Debug, Serialize, serde::Deserialize)]
pub struct DeriveCase {
    pub channel_no: u64,
    pub native_prefix: String,
    pub payload: Vec<u8>,
    pub protocol_prefix: String,
    /// second pair for the injectivity check
    pub channel_no2: u64,
    pub payload2: Vec<u8>,
    pub twist: u8,
}

pub fn derive_case() -> BoxedStrategy<DeriveCase> {
    let chan = || prop_oneof![Just(0u64), 0u64..100, any::<u64>(), Just(u64::MAX), (0u32..19).prop_map(|k| 10u64.pow(k))];
    let pfx = || prop_oneof![Just("celestia".to_string()), Just("osmo".to_string()), Just("init".to_string()), "[a-z][a-z0-9]{0,11}", "[a-z]{1,3}[/1-9.][a-z]{1,4}"];
    let payload = || prop_oneof![proptest::collection::vec(any::<u8>(), 20), proptest::collection::vec(any::<u8>(), 32)];
    (chan(), pfx(), payload(), pfx(), chan(), payload(), 0u8..6)
        .prop_map(|(channel_no, native_prefix, payload, protocol_prefix, channel_no2, payload2, twist)| DeriveCase {
            channel_no,
            native_prefix,
            payload,
            protocol_prefix,
            channel_no2,
            payload2,
            twist,
        })
        .boxed()
}

pub fn check_derive_case(c: &DeriveCase) -> Result<bool, String> {
    let channel = format!("channel-{}", c.channel_no);
    let sender = bech32_encode(&c.native_prefix, &c.payload);
    let want = hooks_sender(&channel, &sender, &c.protocol_prefix);
    let got = guarded(|| derive_intermediate_sender(&channel, &sender, &c.protocol_prefix));
    match got {
        Err(p) => return Err(format!("derive_intermediate_sender({channel},{sender},{}) panicked: {}", c.protocol_prefix, p.message)),
        Ok(Err(e)) => return Err(format!("derive_intermediate_sender({channel},{sender},{}) failed: {e:?}", c.protocol_prefix)),
        Ok(Ok(g)) if g != want => {
            return Err(format!(
                "derive_intermediate_sender({channel},{sender},{}) = {g}; ibc-hooks specification gives {want}",
                c.protocol_prefix
            ))
        }
        Ok(Ok(_)) => {}
    }
    // a second, distinct (channel, sender) pair — adversarially close to the first
    let (channel2, sender2) = match c.twist {
        0 => (format!("channel-{}", c.channel_no2), sender.clone()),
        1 => (channel.clone(), bech32_encode(&c.native_prefix, &c.payload2)),
        // digit moved across the separator: channel-1 + x vs channel-1<d> + x
        2 => (format!("channel-{}", (c.channel_no % 1_000_000_000) * 10 + (c.channel_no2 % 10)), sender.clone()),
        3 => (channel.clone(), bech32_encode(&format!("{}x", c.native_prefix), &c.payload)),
        4 => {
            let mut p = c.payload.clone();
            p[0] ^= 1;
            (channel.clone(), bech32_encode(&c.native_prefix, &p))
        }
        _ => (format!("channel-{}", c.channel_no2), bech32_encode(&c.native_prefix, &c.payload2)),
    };
    let adversarial = (channel2.clone(), sender2.clone()) != (channel.clone(), sender.clone());
    if adversarial {
        let pre1 = format!("{channel}/{sender}");
        let pre2 = format!("{channel2}/{sender2}");
        if pre1 == pre2 {
            return Err(format!("distinct pairs give the same pre-image: ({channel},{sender}) vs ({channel2},{sender2})"));
        }
        let g2 = guarded(|| derive_intermediate_sender(&channel2, &sender2, &c.protocol_prefix));
        let w2 = hooks_sender(&channel2, &sender2, &c.protocol_prefix);
        match g2 {
            Ok(Ok(g2)) => {
                if g2 != w2 {
                    return Err(format!("derive_intermediate_sender({channel2},{sender2}) = {g2}; specification gives {w2}"));
                }
                if g2 == want {
                    return Err(format!("two distinct (channel, sender) pairs map to the same account {g2}: ({channel},{sender}) and ({channel2},{sender2})"));
                }
            }
            other => return Err(format!("derive_intermediate_sender({channel2},{sender2}) failed: {:?}", other)),
        }
    }
    Ok(adversarial)
}

pub fn check_c09_pure(cases: u64, seed: u64) -> RunOutput {
    drive(derive_case, cases, seed, 9, |c: &DeriveCase, agg: &mut Agg| {
        let adversarial = check_derive_case(c)?;
        agg.evaluations += 1;
        let h = sha256(format!("{:?}", c).as_bytes());
        agg.nontrivial.insert(u64::from_le_bytes(h[..8].try_into().unwrap()));
        if adversarial {
            *agg.counters.entry("derive.adversarial_pairs".into()).or_insert(0) += 1;
        }
        *agg.counters.entry(format!("derive.payload{}", c.payload.len())).or_insert(0) += 1;
        Ok(())
    })
}
