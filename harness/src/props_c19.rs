//! C19: token-factory messages per build variant, and build-to-build differential traces.
//! The default (Osmosis) build of this binary drives the check; the `miniwasm` build of the same
//! sources (target-mw) is invoked as a sub-process for its own histories and for its traces.

use crate::crypto::sha256;
use crate::engine::Engine;
use crate::ops::*;
use crate::runner::*;
use crate::ops::Setup;
use proptest::strategy::{Strategy, ValueTree};
use proptest::test_runner::TestRunner;
use staking::msg::QueryMsg;

pub fn profile() -> Profile {
    let mut p = Profile::base("C19");
    p.len = (15, 50);
    p.w_stake = 20;
    p.w_submit = 10;
    p.w_unstake = 12;
    p.w_rewards = 8;
    p.w_resume = 3;
    p
}

fn hx(b: &[u8]) -> String {
    sha256(b)[..6].iter().map(|x| format!("{:02x}", x)).collect()
}

/// Canonical, build-independent trace of a history: one line per step.
pub fn trace_case(case: &Case) -> Vec<String> {
    let mut out = vec![];
    let mut e = match Engine::new(&case.setup) {
        Ok(e) => e,
        Err(m) => return vec![format!("setup: {m}")],
    };
    e.keep_log = true;
    let snap = |e: &Engine| -> String {
        let mut s = String::new();
        let st: Vec<u8> = e.ch.w.storage.data.iter().flat_map(|(k, v)| [k.as_slice(), v.as_slice(), b"|"].concat()).collect();
        s.push_str(&format!("storage={} ", hx(&st)));
        s.push_str(&format!("bank={} ", hx(format!("{:?}", e.ch.w.bank).as_bytes())));
        s.push_str(&format!("supply={} ", hx(format!("{:?}", e.ch.w.supply).as_bytes())));
        s.push_str(&format!("packets={} ", hx(format!("{:?}", e.ch.w.packets).as_bytes())));
        s.push_str(&format!("native={} ", hx(format!("{:?}", e.ch.w.native).as_bytes())));
        s.push_str(&format!("oracle_posts={} ", e.ch.w.oracle_posts));
        for q in [
            QueryMsg::State {},
            QueryMsg::Config {},
            QueryMsg::Batches { start_after: None, limit: None, status: None },
            QueryMsg::IbcQueue { start_after: None, limit: None },
            QueryMsg::PendingBatch {},
        ] {
            match e.ch.query_raw(q) {
                Ok(Ok(b)) => s.push_str(&format!("q={} ", hx(b.as_slice()))),
                Ok(Err(er)) => s.push_str(&format!("qerr={} ", hx(er.as_bytes()))),
                Err(p) => s.push_str(&format!("qpanic={} ", p.message)),
            }
        }
        s
    };
    out.push(format!("init {}", snap(&e)));
    for (i, op) in case.ops.iter().enumerate() {
        let n0 = e.log.len();
        e.run_op(op);
        let lines = e.log[n0..].join(" ;; ");
        out.push(format!("{i} {lines} || {}", snap(&e)));
        if let Some(v) = &e.viol {
            out.push(format!("{i} VIOL {:?} {}", v.tags, v.msg));
            break;
        }
    }
    out
}

/// Deterministic list of cases (same in both builds: same strategy code, same seed).
pub fn cases_for(seed: u64, n: usize) -> Vec<Case> {
    let mut runner = TestRunner::new(pt_config(1, seed ^ 0x19));
    let strat = case_strategy(&profile());
    (0..n).map(|_| strat.new_tree(&mut runner).unwrap().current()).collect()
}

pub fn trace_digest(case: &Case) -> String {
    let t = trace_case(case);
    hx(t.join("\n").as_bytes())
}

/// `harness traces <seed> <n>`: one digest line per generated history.
pub fn print_traces(seed: u64, n: usize) {
    for (i, c) in cases_for(seed, n).iter().enumerate() {
        println!("{i} {}", trace_digest(c));
    }
}

pub fn nontrivial(s: &crate::engine::Stats) -> bool {
    s.get("Stake.ok") >= 1 && s.get("Submit.ok") >= 1 && (s.flags.contains("stake_rate_ne_1") || s.flags.contains("submit_rate_ne_1"))
}

// ------------------------------------------------------------------ sub-denom spellings

/// Instantiation with generated sub-denoms (valid and non-canonical spellings): when accepted, the
/// created denom, the stored LST denom and the denom of the first mint must all be
/// factory/<contract>/<sub-denom exactly as supplied>.
pub type SubCase = (String, u16, u8);

pub fn check_subdenom(c: &SubCase, agg: &mut Agg) -> Result<(), String> {
    let sub = &c.0;
    // "all amounts": mantissa * 10^exp, 1 ..= ~10^30
    let amount: u128 = crate::engine::Engine::sci(c.1.max(1), c.2 % 28).max(1);
    use crate::sim::Effect;
    use crate::world::*;
    use cosmwasm_std::{Coin, Uint128};
    use staking::msg::{ConfigResponse, ExecuteMsg};
    let setup = Setup { prefix: 0, same_prefix: false, oracle: false, treasury: false, fee_rate: 0, min_stake: 1, batch_period: 10, unbonding_period: 10, n_users: 2, n_monitors: 0, channel: 3, start_running: false };
    let a = Addrs::new(&setup);
    let mut ch = new_chain(&setup, &a);
    let mut msg = instantiate_msg(&setup, &a);
    msg.liquid_stake_token_denom = sub.clone();
    let out = ch.instantiate(&a.admin0, msg);
    if let Some(p) = &out.panic {
        return Err(format!("instantiate with sub-denom {sub:?} panicked: {} at {}", p.message, p.location));
    }
    let alphabetic = sub.len() > 3 && sub.chars().all(|c| c.is_ascii_alphabetic());
    agg.evaluations += 1;
    if !out.ok {
        if alphabetic {
            return Err(format!("instantiate with the alphabetic sub-denom {sub:?} was rejected: {:?}", out.err));
        }
        *agg.counters.entry("subdenom.rejected".into()).or_insert(0) += 1;
        return Ok(());
    }
    *agg.counters.entry("subdenom.accepted".into()).or_insert(0) += 1;
    let want = format!("factory/{}/{}", a.contract, sub);
    let created: Vec<(String, String, bool)> = out
        .effects
        .iter()
        .filter_map(|e| match e {
            Effect::CreateDenom { subdenom, denom, canonical, .. } => Some((subdenom.clone(), denom.clone(), *canonical)),
            _ => None,
        })
        .collect();
    if created.len() != 1 || created[0].0 != *sub || created[0].1 != want || !created[0].2 {
        return Err(format!("instantiate with sub-denom {sub:?}: create-denom effects {:?}, expected sub-denom {sub:?} / denom {want}", created));
    }
    let cfg: ConfigResponse = ch.query(QueryMsg::Config {})?;
    if cfg.liquid_stake_token_denom != want {
        return Err(format!("sub-denom {sub:?}: created {want} but the contract records {:?} as its LST denom", cfg.liquid_stake_token_denom));
    }
    let r = ch.execute(&a.admin0, &[], ExecuteMsg::ResumeContract { total_native_token: Uint128::zero(), total_liquid_stake_token: Uint128::zero(), total_reward_amount: Uint128::zero() });
    if !r.ok {
        return Err(format!("sub-denom {sub:?}: resume failed: {:?}", r.err));
    }
    ch.faucet(&a.users[0], STAKED_DENOM, amount);
    let r = ch.execute(&a.users[0], &[Coin::new(amount, STAKED_DENOM)], ExecuteMsg::LiquidStake { mint_to: None, transfer_to_native_chain: None, expected_mint_amount: None });
    let minted: Vec<(String, u128, bool)> = r.effects.iter().filter_map(|e| if let Effect::Mint { denom, amount, canonical, .. } = e { Some((denom.clone(), *amount, *canonical)) } else { None }).collect();
    if !r.ok || minted != vec![(want.clone(), amount, true)] || ch.balance(&a.users[0], &want) != amount {
        return Err(format!("sub-denom {sub:?}: first stake of {amount} ok={} err={:?} minted {:?}, expected a mint of {amount} {want}", r.ok, r.err, minted));
    }
    // unstake part of it and submit the batch: the burn must carry the same denom and the exact amount
    let part = (amount / 3).max(1);
    let r = ch.execute(&a.users[0], &[Coin::new(part, want.as_str())], ExecuteMsg::LiquidUnstake {});
    if !r.ok {
        return Err(format!("sub-denom {sub:?}: unstake of {part} {want} failed: {:?}", r.err));
    }
    ch.time_ns += 11 * 1_000_000_000;
    let r = ch.execute(&a.users[1], &[], ExecuteMsg::SubmitBatch {});
    let burned: Vec<(String, u128, bool)> = r.effects.iter().filter_map(|e| if let Effect::Burn { denom, amount, canonical, .. } = e { Some((denom.clone(), *amount, *canonical)) } else { None }).collect();
    if !r.ok || burned != vec![(want.clone(), part, true)] {
        return Err(format!("sub-denom {sub:?}: batch submission ok={} err={:?} burned {:?}, expected a burn of {part} {want}", r.ok, r.err, burned));
    }
    if sub.len() >= 30 && amount >= 100_000 {
        *agg.counters.entry("subdenom.long_with_many_digits".into()).or_insert(0) += 1;
    }
    agg.nontrivial.insert(crate::runner::fnv_pub(sub));
    Ok(())
}

pub fn run_subdenoms(cases: u64, seed: u64) -> RunOutput {
    use proptest::prelude::*;
    drive(
        || {
            let sub = prop_oneof![
                5 => "[a-zA-Z]{4,20}",
                // the token-factory modules accept sub-denoms of up to 44 characters
                3 => "[a-zA-Z]{21,44}",
                1 => "[a-zA-Z]{1,3}",
                2 => "[ \\t]{0,2}[a-zA-Z]{4,10}[ \\n]{0,2}",
                1 => "[a-zA-Z]{2,6}[0-9/_.-][a-zA-Z]{2,6}",
                1 => "[a-zA-Z]{4,8}\\PC{1,2}",
                1 => Just(String::new()),
            ];
            (sub, 1u16..1000, 0u8..28)
        },
        cases,
        seed,
        191,
        |c: &SubCase, agg: &mut Agg| check_subdenom(c, agg),
    )
}
