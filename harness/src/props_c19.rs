//! C19: token-factory messages per build variant, and build-to-build differential traces.
//! The default (Osmosis) build of this binary drives the check; the `miniwasm` build of the same
//! sources (target-mw) is invoked as a sub-process for its own histories and for its traces.

use crate::crypto::sha256;
use crate::engine::Engine;
use crate::ops::*;
use crate::runner::*;
use proptest::strategy::{Strategy, ValueTree};
use proptest::test_runner::TestRunner;
use staking::msg::QueryMsg;

pub fn profile() -> Profile {
    let mut p = Profile::base("C19");
    p.len = (15, 50);
    p.w_stake = 20;
    p.w_submit = 10;
    p.w_unstake = 12;
    p.w_rewards = 8;
    p.w_resume = 3;
    p
}

fn hx(b: &[u8]) -> String {
    sha256(b)[..6].iter().map(|x| format!("{:02x}", x)).collect()
}

/// Canonical, build-independent trace of a history: one line per step.
pub fn trace_case(case: &Case) -> Vec<String> {
    let mut out = vec![];
    let mut e = match Engine::new(&case.setup) {
        Ok(e) => e,
        Err(m) => return vec![format!("setup: {m}")],
    };
    e.keep_log = true;
    let snap = |e: &Engine| -> String {
        let mut s = String::new();
        let st: Vec<u8> = e.ch.w.storage.data.iter().flat_map(|(k, v)| [k.as_slice(), v.as_slice(), b"|"].concat()).collect();
        s.push_str(&format!("storage={} ", hx(&st)));
        s.push_str(&format!("bank={} ", hx(format!("{:?}", e.ch.w.bank).as_bytes())));
        s.push_str(&format!("supply={} ", hx(format!("{:?}", e.ch.w.supply).as_bytes())));
        s.push_str(&format!("packets={} ", hx(format!("{:?}", e.ch.w.packets).as_bytes())));
        s.push_str(&format!("native={} ", hx(format!("{:?}", e.ch.w.native).as_bytes())));
        s.push_str(&format!("oracle_posts={} ", e.ch.w.oracle_posts));
        for q in [
            QueryMsg::State {},
            QueryMsg::Config {},
            QueryMsg::Batches { start_after: None, limit: None, status: None },
            QueryMsg::IbcQueue { start_after: None, limit: None },
            QueryMsg::PendingBatch {},
        ] {
            match e.ch.query_raw(q) {
                Ok(Ok(b)) => s.push_str(&format!("q={} ", hx(b.as_slice()))),
                Ok(Err(er)) => s.push_str(&format!("qerr={} ", hx(er.as_bytes()))),
                Err(p) => s.push_str(&format!("qpanic={} ", p.message)),
            }
        }
        s
    };
    out.push(format!("init {}", snap(&e)));
    for (i, op) in case.ops.iter().enumerate() {
        let n0 = e.log.len();
        e.run_op(op);
        let lines = e.log[n0..].join(" ;; ");
        out.push(format!("{i} {lines} || {}", snap(&e)));
        if let Some(v) = &e.viol {
            out.push(format!("{i} VIOL {:?} {}", v.tags, v.msg));
            break;
        }
    }
    out
}

/// Deterministic list of cases (same in both builds: same strategy code, same seed).
pub fn cases_for(seed: u64, n: usize) -> Vec<Case> {
    let mut runner = TestRunner::new(pt_config(1, seed ^ 0x19));
    let strat = case_strategy(&profile());
    (0..n).map(|_| strat.new_tree(&mut runner).unwrap().current()).collect()
}

pub fn trace_digest(case: &Case) -> String {
    let t = trace_case(case);
    hx(t.join("\n").as_bytes())
}

/// `harness traces <seed> <n>`: one digest line per generated history.
pub fn print_traces(seed: u64, n: usize) {
    for (i, c) in cases_for(seed, n).iter().enumerate() {
        println!("{i} {}", trace_digest(c));
    }
}

pub fn nontrivial(s: &crate::engine::Stats) -> bool {
    s.get("Stake.ok") >= 1 && s.get("Submit.ok") >= 1 && (s.flags.contains("stake_rate_ne_1") || s.flags.contains("submit_rate_ne_1"))
}
