//! Own SHA-256 (FIPS 180-4) and bech32 (BIP-173) so that the ibc-hooks reference derivation
//! and all address handling in the harness are independent of the `sha2` and `bech32` crates the
//! contracts use.  Both are checked against published vectors in `self_test`.

const K: [u32; 64] = [
    0x428a2f98, 0x71374491, 0xb5c0fbcf, 0xe9b5dba5, 0x3956c25b, 0x59f111f1, 0x923f82a4, 0xab1c5ed5,
    0xd807aa98, 0x12835b01, 0x243185be, 0x550c7dc3, 0x72be5d74, 0x80deb1fe, 0x9bdc06a7, 0xc19bf174,
    0xe49b69c1, 0xefbe4786, 0x0fc19dc6, 0x240ca1cc, 0x2de92c6f, 0x4a7484aa, 0x5cb0a9dc, 0x76f988da,
    0x983e5152, 0xa831c66d, 0xb00327c8, 0xbf597fc7, 0xc6e00bf3, 0xd5a79147, 0x06ca6351, 0x14292967,
    0x27b70a85, 0x2e1b2138, 0x4d2c6dfc, 0x53380d13, 0x650a7354, 0x766a0abb, 0x81c2c92e, 0x92722c85,
    0xa2bfe8a1, 0xa81a664b, 0xc24b8b70, 0xc76c51a3, 0xd192e819, 0xd6990624, 0xf40e3585, 0x106aa070,
    0x19a4c116, 0x1e376c08, 0x2748774c, 0x34b0bcb5, 0x391c0cb3, 0x4ed8aa4a, 0x5b9cca4f, 0x682e6ff3,
    0x748f82ee, 0x78a5636f, 0x84c87814, 0x8cc70208, 0x90befffa, 0xa4506ceb, 0xbef9a3f7, 0xc67178f2,
];

pub fn sha256(data: &[u8]) -> [u8; 32] {
    let mut h: [u32; 8] = [
        0x6a09e667, 0xbb67ae85, 0x3c6ef372, 0xa54ff53a, 0x510e527f, 0x9b05688c, 0x1f83d9ab, 0x5be0cd19,
    ];
    let mut msg = data.to_vec();
    let bitlen = (data.len() as u64).wrapping_mul(8);
    msg.push(0x80);
    while msg.len() % 64 != 56 {
        msg.push(0);
    }
    msg.extend_from_slice(&bitlen.to_be_bytes());
    for chunk in msg.chunks(64) {
        let mut w = [0u32; 64];
        for i in 0..16 {
            w[i] = u32::from_be_bytes([chunk[4 * i], chunk[4 * i + 1], chunk[4 * i + 2], chunk[4 * i + 3]]);
        }
        for i in 16..64 {
            let s0 = w[i - 15].rotate_right(7) ^ w[i - 15].rotate_right(18) ^ (w[i - 15] >> 3);
            let s1 = w[i - 2].rotate_right(17) ^ w[i - 2].rotate_right(19) ^ (w[i - 2] >> 10);
            w[i] = w[i - 16].wrapping_add(s0).wrapping_add(w[i - 7]).wrapping_add(s1);
        }
        let mut v = h;
        for i in 0..64 {
            let s1 = v[4].rotate_right(6) ^ v[4].rotate_right(11) ^ v[4].rotate_right(25);
            let ch = (v[4] & v[5]) ^ (!v[4] & v[6]);
            let t1 = v[7].wrapping_add(s1).wrapping_add(ch).wrapping_add(K[i]).wrapping_add(w[i]);
            let s0 = v[0].rotate_right(2) ^ v[0].rotate_right(13) ^ v[0].rotate_right(22);
            let maj = (v[0] & v[1]) ^ (v[0] & v[2]) ^ (v[1] & v[2]);
            let t2 = s0.wrapping_add(maj);
            v[7] = v[6];
            v[6] = v[5];
            v[5] = v[4];
            v[4] = v[3].wrapping_add(t1);
            v[3] = v[2];
            v[2] = v[1];
            v[1] = v[0];
            v[0] = t1.wrapping_add(t2);
        }
        for i in 0..8 {
            h[i] = h[i].wrapping_add(v[i]);
        }
    }
    let mut out = [0u8; 32];
    for i in 0..8 {
        out[4 * i..4 * i + 4].copy_from_slice(&h[i].to_be_bytes());
    }
    out
}

const CHARSET: &[u8; 32] = b"qpzry9x8gf2tvdw0s3jn54khce6mua7l";

fn polymod(values: &[u8]) -> u32 {
    const GEN: [u32; 5] = [0x3b6a57b2, 0x26508e6d, 0x1ea119fa, 0x3d4233dd, 0x2a1462b3];
    let mut chk: u32 = 1;
    for v in values {
        let b = chk >> 25;
        chk = ((chk & 0x1ffffff) << 5) ^ (*v as u32);
        for (i, g) in GEN.iter().enumerate() {
            if (b >> i) & 1 == 1 {
                chk ^= g;
            }
        }
    }
    chk
}

fn hrp_expand(hrp: &str) -> Vec<u8> {
    let mut v: Vec<u8> = hrp.bytes().map(|b| b >> 5).collect();
    v.push(0);
    v.extend(hrp.bytes().map(|b| b & 31));
    v
}

fn convert_bits(data: &[u8], from: u32, to: u32, pad: bool) -> Option<Vec<u8>> {
    let mut acc: u32 = 0;
    let mut bits: u32 = 0;
    let mut out = vec![];
    let maxv = (1u32 << to) - 1;
    for b in data {
        if (*b as u32) >> from != 0 {
            return None;
        }
        acc = (acc << from) | *b as u32;
        bits += from;
        while bits >= to {
            bits -= to;
            out.push(((acc >> bits) & maxv) as u8);
        }
    }
    if pad {
        if bits > 0 {
            out.push(((acc << (to - bits)) & maxv) as u8);
        }
    } else if bits >= from || ((acc << (to - bits)) & maxv) != 0 {
        return None;
    }
    Some(out)
}

/// bech32 (checksum constant 1) encoding of raw bytes under a lower-case prefix.
pub fn bech32_encode(hrp: &str, payload: &[u8]) -> String {
    bech32_encode_const(hrp, payload, 1)
}

/// bech32m uses 0x2bc830a3; exposed so generators can build "wrong variant" strings.
pub fn bech32_encode_const(hrp: &str, payload: &[u8], konst: u32) -> String {
    let data = convert_bits(payload, 8, 5, true).unwrap();
    let mut values = hrp_expand(hrp);
    values.extend(&data);
    values.extend([0u8; 6]);
    let pm = polymod(&values) ^ konst;
    let mut s = String::from(hrp);
    s.push('1');
    for d in &data {
        s.push(CHARSET[*d as usize] as char);
    }
    for i in 0..6 {
        s.push(CHARSET[((pm >> (5 * (5 - i))) & 31) as usize] as char);
    }
    s
}

/// Checksum-valid bech32 string over arbitrary 5-bit symbols (not necessarily whole bytes).
pub fn bech32_encode_data5(hrp: &str, data5: &[u8]) -> String {
    let data: Vec<u8> = data5.iter().map(|d| d & 31).collect();
    let mut values = hrp_expand(hrp);
    values.extend(&data);
    values.extend([0u8; 6]);
    let pm = polymod(&values) ^ 1;
    let mut s = String::from(hrp);
    s.push('1');
    for d in &data {
        s.push(CHARSET[*d as usize] as char);
    }
    for i in 0..6 {
        s.push(CHARSET[((pm >> (5 * (5 - i))) & 31) as usize] as char);
    }
    s
}

#[derive(Debug, Clone, PartialEq, Eq)]
pub struct Decoded {
    pub hrp: String,
    /// 5-bit data symbols without the checksum
    pub data5: Vec<u8>,
    /// true = bech32 (const 1); false = bech32m
    pub classic: bool,
    /// string was entirely upper-case
    pub upper: bool,
}

/// Strict BIP-173 decoder: length limit 90 is *not* applied (Cosmos addresses with 32-byte
/// payloads and long prefixes exceed it, and the crate the contracts use does not apply it).
pub fn bech32_decode(s: &str) -> Option<Decoded> {
    let has_lower = s.bytes().any(|b| b.is_ascii_lowercase());
    let has_upper = s.bytes().any(|b| b.is_ascii_uppercase());
    if has_lower && has_upper {
        return None;
    }
    let lower = s.to_ascii_lowercase();
    let pos = lower.rfind('1')?;
    if pos == 0 || pos + 7 > lower.len() {
        return None;
    }
    let hrp = &lower[..pos];
    if !hrp.bytes().all(|b| (33..=126).contains(&b)) {
        return None;
    }
    let mut data = vec![];
    for c in lower[pos + 1..].bytes() {
        let idx = CHARSET.iter().position(|x| *x == c)?;
        data.push(idx as u8);
    }
    let mut values = hrp_expand(hrp);
    values.extend(&data);
    let pm = polymod(&values);
    let classic = match pm {
        1 => true,
        0x2bc830a3 => false,
        _ => return None,
    };
    let data5 = data[..data.len() - 6].to_vec();
    Some(Decoded { hrp: hrp.to_string(), data5, classic, upper: has_upper })
}

impl Decoded {
    /// The byte payload, when the data part is a whole number of bytes with zero padding.
    pub fn payload(&self) -> Option<Vec<u8>> {
        convert_bits(&self.data5, 5, 8, false)
    }
}

/// Reference for the Osmosis ibc-hooks intermediate sender, written from the specification:
/// bech32(prefix, SHA-256(SHA-256("ibc-wasm-hook-intermediary") || "<channel>/<sender>")).
pub fn hooks_sender(channel: &str, native_sender: &str, prefix: &str) -> String {
    let th = sha256(b"ibc-wasm-hook-intermediary");
    let mut pre = th.to_vec();
    pre.extend_from_slice(format!("{channel}/{native_sender}").as_bytes());
    bech32_encode(prefix, &sha256(&pre))
}

fn hex(b: &[u8]) -> String {
    b.iter().map(|x| format!("{:02x}", x)).collect()
}

pub fn self_test() {
    // FIPS 180-4 / NIST example vectors
    assert_eq!(hex(&sha256(b"")), "e3b0c44298fc1c149afbf4c8996fb92427ae41e4649b934ca495991b7852b855");
    assert_eq!(hex(&sha256(b"abc")), "ba7816bf8f01cfea414140de5dae2223b00361a396177a9cb410ff61f20015ad");
    assert_eq!(
        hex(&sha256(b"abcdbcdecdefdefgefghfghighijhijkijkljklmklmnlmnomnopnopq")),
        "248d6a61d20638b8e5c026930c3e6039a33ce45964ff2167f6ecedd419db06c1"
    );
    let million_a = vec![b'a'; 1_000_000];
    assert_eq!(hex(&sha256(&million_a)), "cdc76e5c9914fb9281a1c7e284d73e67f1809a48a497200e046d39ccc7112cd0");
    // BIP-173 valid strings
    for s in [
        "A12UEL5L",
        "a12uel5l",
        "an83characterlonghumanreadablepartthatcontainsthenumber1andtheexcludedcharactersbio1tt5tgs",
        "abcdef1qpzry9x8gf2tvdw0s3jn54khce6mua7lmqqqxw",
        "split1checkupstagehandshakeupstreamerranterredcaperred2y9e3w",
        "?1ezyfcl",
    ] {
        let d = bech32_decode(s).unwrap_or_else(|| panic!("BIP-173 vector rejected: {s}"));
        assert!(d.classic);
    }
    // BIP-173 invalid strings
    for s in ["pzry9x0s0muk", "1pzry9x0s0muk", "x1b4n0q5v", "li1dgmt3", "A1G7SGD8", "10a06t8", "1qzzfhee", "A12uEL5L"] {
        assert!(bech32_decode(s).is_none(), "BIP-173 invalid vector accepted: {s}");
    }
    let d = bech32_decode("bc1qw508d6qejxtdg4y5r3zarvary0c5xw7kv8f3t4").unwrap();
    assert_eq!(d.hrp, "bc");
    // a well-known Cosmos address pair (same key, different prefix) from the repository's tests
    let a = bech32_decode("osmo1sfhy3emrgp26wnzuu64p06kpkxd9phel8ym0ge").unwrap();
    let p = a.payload().unwrap();
    assert_eq!(p.len(), 20);
    assert_eq!(bech32_encode("osmo", &p), "osmo1sfhy3emrgp26wnzuu64p06kpkxd9phel8ym0ge");
    assert_eq!(bech32_encode("celestia", &p), "celestia1sfhy3emrgp26wnzuu64p06kpkxd9phel74e0yx");
    // BIP-350 bech32m vector is recognised as non-classic
    assert_eq!(bech32_decode("a1lqfn3a").map(|d| d.classic), Some(false));
}
