//! C17: pagination completeness on synthetic stores (ids with gaps and u64 extremes, all statuses)
//! and, through the history engine, consistency of the per-user request index.

use crate::crypto::sha256;
use crate::runner::*;
use crate::sim::guarded;
use crate::store::{MemStorage, NoQuerier, SimApi};
use cosmwasm_std::{Addr, BlockInfo, Coin, ContractInfo, Deps, Env, QuerierWrapper, Timestamp, Uint128};
use milky_way::staking::{Batch, BatchStatus};
use proptest::prelude::*;
use serde::{Deserialize, Serialize};
use staking::msg::{BatchesResponse, IBCQueueResponse, QueryMsg};
use staking::state::ibc::{IBCTransfer, PacketLifecycleStatus};
use staking::state::{BATCHES, INFLIGHT_PACKETS};

#[derive(Clone, Debug, Serialize, Deserialize)]
pub struct PageCase {
    /// (id, status 0..3)
    pub batches: Vec<(u64, u8)>,
    pub packets: Vec<u64>,
    /// (start selector, limit, status filter)
    pub walks: Vec<(Option<u64>, u32, Option<u8>)>,
    pub id_lists: Vec<Vec<u64>>,
    /// open unstake requests (batch id, user 0..4, amount), stored through the contract's own `new_unstake_request`
    #[serde(default)]
    pub requests: Vec<(u64, u8, u128)>,
}

fn ids() -> BoxedStrategy<u64> {
    prop_oneof![4 => 0u64..40, 1 => Just(0u64), 1 => Just(u64::MAX), 1 => Just(u64::MAX - 1), 2 => any::<u64>(), 1 => (0u32..64).prop_map(|k| 1u64 << k)].boxed()
}

pub fn page_case() -> BoxedStrategy<PageCase> {
    // mostly small stores; one case in six is a long history (100-400 batches, long runs of one status) so that
    // a walk has to skip more than a hundred non-matching entries
    let small = proptest::collection::vec((ids(), 0u8..3), 0..40).boxed();
    let big = (0u8..3, proptest::collection::vec((0u64..3000, prop_oneof![9 => Just(0u8), 1 => 1u8..3]), 100..400))
        .prop_map(|(base, v)| v.into_iter().map(|(id, d)| (id, (base + d) % 3)).collect::<Vec<_>>())
        .boxed();
    (
        prop_oneof![5 => small, 1 => big],
        proptest::collection::vec(ids(), 0..30),
        proptest::collection::vec((proptest::option::weighted(0.7, ids()), prop_oneof![4 => 1u32..6, 1 => 6u32..50, 1 => Just(u32::MAX)], proptest::option::weighted(0.6, 0u8..3)), 1..20),
        proptest::collection::vec(proptest::collection::vec(ids(), 0..10), 0..4),
        // requests in batches of any age: ids 1..300 (a contract that has submitted hundreds of batches) and the extremes
        proptest::collection::vec((prop_oneof![6 => 1u64..300, 2 => ids()], 0u8..4, 1u128..1_000_000_000), 0..25),
    )
        .prop_map(|(batches, packets, walks, id_lists, requests)| PageCase { batches, packets, walks, id_lists, requests })
        .boxed()
}

fn status(k: u8) -> BatchStatus {
    match k % 3 {
        0 => BatchStatus::Pending,
        1 => BatchStatus::Submitted,
        _ => BatchStatus::Received,
    }
}

pub fn check_page_case(c: &PageCase, agg: &mut Agg) -> Result<(), String> {
    let mut storage = MemStorage::default();
    let mut bref: std::collections::BTreeMap<u64, u8> = Default::default();
    for (id, st) in &c.batches {
        let mut b = Batch::new(*id, Uint128::new(*id as u128 % 1000), 5);
        b.status = status(*st);
        BATCHES.save(&mut storage, *id, &b).map_err(|e| e.to_string())?;
        bref.insert(*id, *st % 3);
    }
    let mut pref: std::collections::BTreeSet<u64> = Default::default();
    for (i, seq) in c.packets.iter().enumerate() {
        let st = match i % 3 {
            0 => PacketLifecycleStatus::Sent,
            1 => PacketLifecycleStatus::AckFailure,
            _ => PacketLifecycleStatus::TimedOut,
        };
        INFLIGHT_PACKETS
            .save(&mut storage, *seq, &IBCTransfer { sequence: *seq, amount: Coin::new(1 + i as u128, "x"), receiver: "r".into(), status: st })
            .map_err(|e| e.to_string())?;
        pref.insert(*seq);
    }
    let users: Vec<String> = (0..4).map(|i| crate::world::acct("osmo", &format!("c17user{i}"), 20)).collect();
    let mut rref: std::collections::BTreeMap<(usize, u64), u128> = Default::default();
    {
        let api = SimApi { prefix: "osmo".into() };
        let q = NoQuerier;
        for (id, u, amt) in &c.requests {
            let u = *u as usize % users.len();
            let mut deps = cosmwasm_std::DepsMut { storage: &mut storage, api: &api, querier: QuerierWrapper::new(&q) };
            staking::state::new_unstake_request(&mut deps, users[u].clone(), *id, Uint128::new(*amt)).map_err(|e| e.to_string())?;
            rref.insert((u, *id), *amt);
        }
    }
    let api = SimApi { prefix: "osmo".into() };
    let q = NoQuerier;
    let env = Env {
        block: BlockInfo { height: 1, time: Timestamp::from_seconds(1), chain_id: "x".into() },
        transaction: None,
        contract: ContractInfo { address: Addr::unchecked("c") },
    };
    let run = |msg: QueryMsg| -> Result<cosmwasm_std::Binary, String> {
        let deps = Deps { storage: &storage, api: &api, querier: QuerierWrapper::new(&q) };
        match guarded(|| staking::contract::query(deps, env.clone(), msg)) {
            Ok(Ok(b)) => Ok(b),
            Ok(Err(e)) => Err(format!("query error {e}")),
            Err(p) => Err(format!("query panicked: {} at {}", p.message, p.location)),
        }
    };
    let mut nontrivial = false;
    for (start, limit, st) in &c.walks {
        // ---- batches
        let reference: Vec<u64> =
            bref.iter().filter(|(id, s)| start.map(|x| **id > x).unwrap_or(true) && st.map(|f| **s == f % 3).unwrap_or(true)).map(|(id, _)| *id).collect();
        let mut got: Vec<u64> = vec![];
        let mut cursor = *start;
        let mut pages = 0;
        let mut skipped_inside = false;
        loop {
            let b = run(QueryMsg::Batches { start_after: cursor, limit: Some(*limit), status: st.map(status) })?;
            let r: BatchesResponse = cosmwasm_std::from_json(&b).map_err(|e| e.to_string())?;
            let page: Vec<u64> = r.batches.iter().map(|x| x.id).collect();
            let what = format!("Batches start_after={cursor:?} limit={limit} status={:?} over ids {:?}", st.map(|s| s % 3), bref);
            if page.len() as u64 > *limit as u64 {
                return Err(format!("{what}: page of {} exceeds the limit", page.len()));
            }
            if page.windows(2).any(|w| w[0] >= w[1]) {
                return Err(format!("{what}: page not strictly ascending: {:?}", page));
            }
            if let Some(cu) = cursor {
                if page.iter().any(|x| *x <= cu) {
                    return Err(format!("{what}: page {:?} contains ids at or before the cursor", page));
                }
            }
            for x in r.batches.iter() {
                let want = bref.get(&x.id).map(|s| status(*s).as_str());
                if want != Some(x.status.as_str()) || st.map(|f| status(f).as_str() != x.status).unwrap_or(false) {
                    return Err(format!("{what}: returned batch {} with status {} (stored {:?})", x.id, x.status, want));
                }
            }
            if let (Some(f), Some(l)) = (page.first(), page.last()) {
                if bref.range(*f..=*l).count() > page.len() {
                    skipped_inside = true;
                }
            }
            pages += 1;
            // a page shorter than asked for must either exhaust the matching batches or be a page-size cap
            // (>= PAGE_CAP_MIN items): clients commonly stop at the first short page
            let remaining = reference.iter().filter(|id| cursor.map(|cu| **id > cu).unwrap_or(true)).count();
            if page.len() < (*limit as usize).min(remaining) && page.len() < crate::engine_inv::PAGE_CAP_MIN {
                return Err(format!("{what}: page {:?} ends early: {} matching batches follow the cursor", page, remaining));
            }
            got.extend(&page);
            // a client pages until it gets an empty page (a page may be shorter than the requested limit if the
            // contract caps page sizes)
            if page.is_empty() {
                break;
            }
            cursor = page.last().copied();
            if pages > bref.len() + 5 {
                return Err(format!("{what}: walk does not terminate"));
            }
        }
        if got != reference {
            return Err(format!(
                "walking Batches from {start:?} with limit {limit} and status {:?} returned {:?}; full-scan reference {:?} (stored {:?})",
                st.map(|s| s % 3),
                got,
                reference,
                bref
            ));
        }
        if pages >= 4 && skipped_inside {
            nontrivial = true;
        }
        // ---- packet queue
        let reference: Vec<u64> = pref.iter().copied().filter(|id| start.map(|x| *id > x).unwrap_or(true)).collect();
        let mut got: Vec<u64> = vec![];
        let mut cursor = *start;
        let mut pages = 0;
        loop {
            let b = run(QueryMsg::IbcQueue { start_after: cursor, limit: Some(*limit) })?;
            let r: IBCQueueResponse = cosmwasm_std::from_json(&b).map_err(|e| e.to_string())?;
            let page: Vec<u64> = r.ibc_queue.iter().map(|x| x.sequence).collect();
            if page.len() as u64 > *limit as u64 || page.windows(2).any(|w| w[0] >= w[1]) {
                return Err(format!("IbcQueue start_after={cursor:?} limit={limit}: bad page {:?}", page));
            }
            pages += 1;
            let remaining = reference.iter().filter(|id| cursor.map(|cu| **id > cu).unwrap_or(true)).count();
            if page.len() < (*limit as usize).min(remaining) && page.len() < crate::engine_inv::PAGE_CAP_MIN {
                return Err(format!("IbcQueue start_after={cursor:?} limit={limit}: page {:?} ends early: {} packets follow the cursor", page, remaining));
            }
            got.extend(&page);
            if page.is_empty() || pages > pref.len() + 5 {
                break;
            }
            cursor = page.last().copied();
        }
        if got != reference {
            return Err(format!("walking IbcQueue from {start:?} with limit {limit} returned {:?}; reference {:?}", got, reference));
        }
        if pages >= 4 {
            nontrivial = true;
        }
    }
    // ---- per-user request index: exactly that user's open requests, whatever the age of the batch
    for (ui, u) in users.iter().enumerate() {
        let b = run(QueryMsg::UnstakeRequests { user: Addr::unchecked(u) })?;
        let r: Vec<staking::state::UnstakeRequest> = cosmwasm_std::from_json(&b).map_err(|e| e.to_string())?;
        let mut got: Vec<(u64, u128)> = r.iter().map(|x| (x.batch_id, x.amount.u128())).collect();
        got.sort();
        let want: Vec<(u64, u128)> = rref.iter().filter(|((w, _), _)| *w == ui).map(|((_, id), a)| (*id, *a)).collect();
        if got != want || r.iter().any(|x| x.user != *u) {
            return Err(format!("UnstakeRequests({u}) returned {:?}; the stored open requests of that user are {:?}", r, want));
        }
        if want.iter().any(|(id, _)| *id >= 128) {
            *agg.counters.entry("request_in_batch_128_or_later".into()).or_insert(0) += 1;
        }
    }
    for ids in &c.id_lists {
        let b = run(QueryMsg::BatchesByIds { ids: ids.clone() })?;
        let r: BatchesResponse = cosmwasm_std::from_json(&b).map_err(|e| e.to_string())?;
        let got: Vec<u64> = r.batches.iter().map(|x| x.id).collect();
        let want: Vec<u64> = ids.iter().copied().filter(|i| bref.contains_key(i)).collect();
        let mut once: Vec<u64> = vec![];
        for i in &want {
            if !once.contains(i) {
                once.push(*i);
            }
        }
        if got != want && got != once {
            return Err(format!("BatchesByIds {:?} returned {:?}; existing requested batches are {:?}", ids, got, want));
        }
        if want.len() != ids.len() && !want.is_empty() {
            nontrivial = true;
        }
    }
    agg.evaluations += 1;
    *agg.counters.entry("walks".into()).or_insert(0) += 2 * c.walks.len() as u64;
    if nontrivial {
        agg.nontrivial.insert(u64::from_le_bytes(sha256(format!("{:?}", c).as_bytes())[..8].try_into().unwrap()));
    }
    Ok(())
}

pub fn check_c17_pages(cases: u64, seed: u64) -> RunOutput {
    drive(page_case, cases, seed, 17, |c: &PageCase, agg: &mut Agg| check_page_case(c, agg))
}
