use harness::props;
use harness::runner::*;

fn usage() -> ! {
    eprintln!("usage: harness check <ID> <quick|thorough> | harness replay <ID> <file> | harness selftest");
    std::process::exit(2)
}

fn main() {
    harness::u256::self_test();
    harness::crypto::self_test();
    let args: Vec<String> = std::env::args().collect();
    if args.len() < 2 {
        usage();
    }
    match args[1].as_str() {
        "selftest" => println!("self tests ok"),
        "check" => {
            if args.len() < 4 {
                usage();
            }
            let thorough = args[3] == "thorough";
            let seed = seed_from_env();
            let code = match harness::checks::run_check(&args[2], thorough, seed) {
                Some(rep) => rep.finish(),
                None => {
                    eprintln!("unknown property {}", args[2]);
                    2
                }
            };
            std::process::exit(code);
        }
        "fuzzcase" => {
            // harness fuzzcase <hist|small> <file>: decode a libFuzzer input into the structured case and run it
            let data = std::fs::read(&args[3]).expect("read");
            if args[2] == "hist" {
                match harness::fuzzing::case_from_bytes(&data) {
                    Some(c) => {
                        println!("{}", serde_json::to_string(&c).unwrap());
                        let t = std::time::Instant::now();
                        let r = harness::fuzzing::run_history_case(&c);
                        eprintln!("ran in {:?}: {:?}", t.elapsed(), r);
                    }
                    None => println!("null"),
                }
            } else {
                let t = std::time::Instant::now();
                let r = harness::fuzzing::run_small_case(&data);
                eprintln!("selector {} ran in {:?}: {:?}", data[0] % 10, t.elapsed(), r.map(|x| (x.0, x.1)));
            }
        }
        "traces" => {
            let seed: u64 = args[2].parse().unwrap_or(1);
            let n: usize = args[3].parse().unwrap_or(10);
            harness::props_c19::print_traces(seed, n);
        }
        "replay" => {
            if args.len() < 4 {
                usage();
            }
            std::process::exit(harness::checks::replay(&args[2], &args[3]));
        }
        _ => usage(),
    }
    let _ = props::history_assumptions;
}
