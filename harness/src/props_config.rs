//! C14: only well-formed configuration is ever accepted; updates are sectional; validator
//! add/remove changes exactly the named entry.

use crate::crypto::{bech32_decode, bech32_encode, bech32_encode_const, sha256};
use crate::runner::*;
use crate::sim::Chain;
use cosmwasm_std::Uint128;
use proptest::prelude::*;
use serde::{Deserialize, Serialize};
use staking::msg::{ConfigResponse, ExecuteMsg, InstantiateMsg, QueryMsg};
use staking::types::{UnsafeNativeChainConfig, UnsafeProtocolChainConfig, UnsafeProtocolFeeConfig};

#[derive(Clone, Debug, Serialize, Deserialize, PartialEq)]
pub struct RawCfg {
    pub nprefix: String,
    pub vprefix: String,
    pub token_denom: String,
    pub validators: Vec<String>,
    pub unbonding: u64,
    pub staker: String,
    pub collector: String,
    pub pprefix: String,
    pub ibc_denom: String,
    pub channel: String,
    pub min_stake: u128,
    pub oracle: Option<String>,
    pub fee: u128,
    pub treasury: Option<String>,
    pub subdenom: String,
    pub batch_period: u64,
    pub monitors: Vec<String>,
}

#[derive(Clone, Debug, Serialize, Deserialize)]
pub struct Seed {
    pub np: String,
    pub pp: String,
    pub vp_custom: Option<String>,
    pub n_val: u8,
    pub n_mon: u8,
    pub oracle: bool,
    pub treasury: bool,
    pub channel: u64,
    pub salt: u8,
    pub sub: String,
    pub tok: String,
    pub hex_lower: bool,
    /// leading zeros in the channel number (a valid spelling that must be stored as supplied)
    #[serde(default)]
    pub channel_zeros: u8,
}

fn addr(prefix: &str, label: &str, salt: u8, len: usize) -> String {
    bech32_encode(prefix, &sha256(format!("{label}/{salt}").as_bytes())[..len])
}

pub fn build(s: &Seed) -> RawCfg {
    let vp = s.vp_custom.clone().unwrap_or_else(|| format!("{}valoper", s.np));
    let h = sha256(format!("denom{}", s.salt).as_bytes());
    let mut hex: String = h.iter().map(|b| format!("{:02X}", b)).collect();
    if s.hex_lower {
        hex = hex.to_lowercase();
    }
    RawCfg {
        validators: (0..s.n_val).map(|i| addr(&vp, &format!("val{i}"), s.salt, 20)).collect(),
        staker: addr(&s.np, "staker", s.salt, 20),
        collector: addr(&s.np, "collector", s.salt, if s.salt % 5 == 0 { 32 } else { 20 }),
        monitors: (0..s.n_mon).map(|i| addr(&s.pp, &format!("mon{i}"), s.salt, 20)).collect(),
        oracle: if s.oracle { Some(addr(&s.pp, "oracle", s.salt, 32)) } else { None },
        treasury: if s.treasury { Some(addr(&s.pp, "treasury", s.salt, 32)) } else { None },
        nprefix: s.np.clone(),
        vprefix: vp,
        token_denom: s.tok.clone(),
        unbonding: 1000 + s.salt as u64,
        pprefix: s.pp.clone(),
        ibc_denom: format!("ibc/{hex}"),
        channel: format!("channel-{}{}", "0".repeat(s.channel_zeros as usize % 4), s.channel),
        min_stake: s.salt as u128,
        fee: 1000 * s.salt as u128,
        subdenom: s.sub.clone(),
        batch_period: 50 + s.salt as u64,
    }
}

#[derive(Clone, Debug, Serialize, Deserialize, PartialEq)]
pub enum Field {
    NPrefix,
    VPrefix,
    PPrefix,
    Staker,
    Collector,
    Validator(u8),
    Monitor(u8),
    Oracle,
    Treasury,
    Channel,
    IbcDenom,
    TokenDenom,
    SubDenom,
}

#[derive(Clone, Debug, Serialize, Deserialize)]
pub struct Corruption {
    pub field: Field,
    pub kind: u8,
}

fn corrupt_prefix(p: &str, kind: u8, other: &str) -> String {
    match kind % 11 {
        9 => format!("{}_X@Y", p.to_uppercase()),
        10 => format!("{}[]^", p.to_uppercase()),
        0 => other.to_string(),
        1 => p.to_uppercase(),
        2 => {
            let mut c = p.to_string();
            if p.is_ascii() && !p.is_empty() {
                c = format!("{}{}", p[0..1].to_uppercase(), &p[1..]);
            }
            if c == p {
                format!("{p}X")
            } else {
                c
            }
        }
        3 => String::new(),
        4 => format!("{p} x"),
        5 => format!("{p}\u{7f}"),
        6 => "a".repeat(84),
        7 => format!("{p}\u{e9}"),
        _ => format!("{p}1"),
    }
}

fn corrupt_addr(a: &str, kind: u8, other_prefix: &str) -> String {
    if a.len() < 12 || !a.is_ascii() {
        return format!("{a}x");
    }
    let dec = bech32_decode(a);
    let payload = dec.as_ref().and_then(|d| d.payload()).unwrap_or_else(|| vec![7; 20]);
    let hrp = dec.as_ref().map(|d| d.hrp.clone()).unwrap_or_else(|| "x".into());
    match kind % 12 {
        11 => crate::crypto::bech32_encode_data5(&hrp, &[(kind / 12) % 32; 1][..]),
        0 => bech32_encode(other_prefix, &payload),
        1 => a.to_uppercase(),
        2 => {
            // mixed case: upper-case one data character
            let mut c: Vec<char> = a.chars().collect();
            let n = c.len();
            c[n - 3] = c[n - 3].to_ascii_uppercase();
            if c.iter().collect::<String>() == a {
                c[n - 4] = c[n - 4].to_ascii_uppercase();
            }
            c.into_iter().collect()
        }
        3 => a[..a.len() - 1].to_string(),
        4 => format!("{a}q"),
        5 => {
            let mut s = a.to_string();
            let l = s.pop().unwrap();
            s.push(if l == 'q' { 'p' } else { 'q' });
            s
        }
        6 => bech32_encode_const(&hrp, &payload, 0x2bc830a3),
        7 => String::new(),
        8 => format!("{hrp}1"),
        9 => format!(" {a}"),
        // swap two adjacent data characters (bech32 detects it)
        _ => {
            let mut c: Vec<char> = a.chars().collect();
            let n = c.len();
            if c[n - 8] != c[n - 9] {
                c.swap(n - 8, n - 9);
            } else {
                c[n - 8] = if c[n - 8] == 'q' { 'p' } else { 'q' };
            }
            c.into_iter().collect()
        }
    }
}

fn corrupt_channel(c: &str, kind: u8) -> String {
    let n = c.strip_prefix("channel-").unwrap_or("1");
    match kind % 20 {
        17 => format!("channel\u{2013}{n}"),
        18 => format!("ch\u{e9}nnel-{n}"),
        19 => format!("channel-{n}\u{e9}"),
        14 => format!("channel-channel-{n}"),
        15 => format!("channel-{n}channel-"),
        16 => format!("channel-{n}\u{0}"),
        0 => "channel-".into(),
        1 => "channel-x".into(),
        2 => format!("channel-+{n}"),
        3 => format!("channel-{n} "),
        4 => format!(" channel-{n}"),
        5 => format!("channel--{n}"),
        6 => "channel-18446744073709551616".into(),
        7 => format!("Channel-{n}"),
        8 => "channel-0x10".into(),
        9 => "channel-\u{661}".into(),
        10 => format!("channel{n}"),
        11 => format!("channel-{n}.0"),
        12 => String::new(),
        _ => format!("channel-{n}/transfer"),
    }
}

fn corrupt_ibc(d: &str, kind: u8) -> String {
    let h = d.strip_prefix("ibc/").unwrap_or(d);
    let h63: String = h.chars().take(63).collect();
    match kind % 16 {
        // a multi-byte character inside the fixed prefix (same number of characters, different byte offsets)
        12 => format!("ibc\u{e9}{h}"),
        13 => format!("ib\u{e9}/{h}"),
        14 => format!("\u{1F600}bc/{h}"),
        15 => format!("ibc/{}\u{e9}", h63),
        // the fixed prefix repeated: the remainder after *one* "ibc/" is then 68 / 72 characters
        8 => format!("ibc/ibc/{h}"),
        9 => format!("ibc/ibc/ibc/{h}"),
        10 => format!("ibc/{h}ibc/"),
        11 => format!("ibc/{h63}\u{0}"),
        0 => format!("ibc/{h63}"),
        1 => format!("ibc/{h}A"),
        2 => format!("IBC/{h}"),
        3 => h.to_string(),
        4 => format!("ibc/{}", "\u{e9}".repeat(32)),
        5 => String::new(),
        6 => format!("ibc{h}/"),
        _ => format!("ibc//{h63}"),
    }
}

fn corrupt_denom(d: &str, kind: u8) -> String {
    match kind % 9 {
        0 => format!("{d}1"),
        1 => String::new(),
        2 => "abc".into(),
        3 => format!("{d}/x"),
        4 => format!("{d} "),
        7 => format!(" {d}"),
        8 => format!("\t{d}\n"),
        5 => format!("u\u{e9}{d}"),
        _ => format!("{d}-x"),
    }
}

impl RawCfg {
    pub fn apply(&mut self, c: &Corruption) {
        let k = c.kind;
        match &c.field {
            Field::NPrefix => self.nprefix = corrupt_prefix(&self.nprefix, k, &self.pprefix.clone()),
            Field::VPrefix => self.vprefix = corrupt_prefix(&self.vprefix, k, &self.nprefix.clone()),
            Field::PPrefix => self.pprefix = corrupt_prefix(&self.pprefix, k, &self.nprefix.clone()),
            Field::Staker => self.staker = corrupt_addr(&self.staker, k, &self.pprefix.clone()),
            Field::Collector => self.collector = corrupt_addr(&self.collector, k, &self.vprefix.clone()),
            Field::Validator(i) => {
                if self.validators.is_empty() {
                    self.validators.push(corrupt_addr(&self.staker.clone(), k, &self.nprefix.clone()));
                } else {
                    let i = *i as usize % self.validators.len();
                    if k % 24 == 23 {
                        let d = self.validators[i].clone();
                        self.validators.push(d);
                    } else {
                        self.validators[i] = corrupt_addr(&self.validators[i].clone(), k, &self.nprefix.clone());
                    }
                }
            }
            Field::Monitor(i) => {
                if self.monitors.is_empty() {
                    self.monitors.push(corrupt_addr(&self.staker.clone(), k, &self.nprefix.clone()));
                } else {
                    let i = *i as usize % self.monitors.len();
                    if k % 24 == 23 {
                        let d = self.monitors[i].clone();
                        self.monitors.insert(0, d);
                    } else {
                        self.monitors[i] = corrupt_addr(&self.monitors[i].clone(), k, &self.nprefix.clone());
                    }
                }
            }
            Field::Oracle => {
                let base = self.oracle.clone().unwrap_or_else(|| bech32_encode(&self.pprefix, &[3; 32]));
                self.oracle = Some(corrupt_addr(&base, k, &self.nprefix.clone()));
            }
            Field::Treasury => {
                let base = self.treasury.clone().unwrap_or_else(|| bech32_encode(&self.pprefix, &[4; 32]));
                self.treasury = Some(corrupt_addr(&base, k, &self.nprefix.clone()));
            }
            Field::Channel => self.channel = corrupt_channel(&self.channel, k),
            Field::IbcDenom => self.ibc_denom = corrupt_ibc(&self.ibc_denom, k),
            Field::TokenDenom => self.token_denom = corrupt_denom(&self.token_denom, k),
            Field::SubDenom => self.subdenom = corrupt_denom(&self.subdenom, k),
        }
    }
    pub fn native(&self) -> UnsafeNativeChainConfig {
        UnsafeNativeChainConfig {
            account_address_prefix: self.nprefix.clone(),
            validator_address_prefix: self.vprefix.clone(),
            token_denom: self.token_denom.clone(),
            validators: self.validators.clone(),
            unbonding_period: self.unbonding,
            staker_address: self.staker.clone(),
            reward_collector_address: self.collector.clone(),
        }
    }
    pub fn protocol(&self) -> UnsafeProtocolChainConfig {
        UnsafeProtocolChainConfig {
            account_address_prefix: self.pprefix.clone(),
            ibc_token_denom: self.ibc_denom.clone(),
            ibc_channel_id: self.channel.clone(),
            minimum_liquid_stake_amount: Uint128::new(self.min_stake),
            oracle_address: self.oracle.clone(),
        }
    }
    pub fn fee(&self) -> UnsafeProtocolFeeConfig {
        UnsafeProtocolFeeConfig { dao_treasury_fee: Uint128::new(self.fee), treasury_address: self.treasury.clone() }
    }
    pub fn init(&self) -> InstantiateMsg {
        InstantiateMsg {
            native_chain_config: self.native(),
            protocol_chain_config: self.protocol(),
            protocol_fee_config: self.fee(),
            liquid_stake_token_denom: self.subdenom.clone(),
            batch_period: self.batch_period,
            monitors: self.monitors.clone(),
        }
    }
}

// ---- independent well-formedness predicates over what the Config query returns

fn wf_prefix(p: &str) -> bool {
    !p.is_empty() && p.len() <= 83 && p.bytes().all(|b| (33..=126).contains(&b) && !b.is_ascii_uppercase())
}
fn wf_addr(a: &str, prefix: &str) -> bool {
    match bech32_decode(a) {
        Some(d) => d.hrp == prefix,
        None => false,
    }
}
fn no_dups(v: &[String]) -> bool {
    let mut s = v.to_vec();
    s.sort();
    s.windows(2).all(|w| w[0] != w[1])
}
fn wf_channel(c: &str) -> bool {
    match c.strip_prefix("channel-") {
        Some(n) => !n.is_empty() && n.bytes().all(|b| b.is_ascii_digit()) && n.parse::<u64>().is_ok(),
        None => false,
    }
}
fn wf_ibc_denom(d: &str) -> bool {
    match d.strip_prefix("ibc/") {
        Some(h) => h.chars().count() == 64,
        None => false,
    }
}
fn wf_alpha(d: &str) -> bool {
    !d.is_empty() && d.chars().all(|c| c.is_ascii_alphabetic())
}

pub fn wf_native(c: &ConfigResponse) -> Result<(), String> {
    let n = &c.native_chain_config;
    let vals: Vec<String> = n.validators.iter().map(|a| a.to_string()).collect();
    if !wf_prefix(&n.account_address_prefix) || !wf_prefix(&n.validator_address_prefix) {
        return Err(format!("native prefixes {:?}/{:?} not lower-case bech32 prefixes", n.account_address_prefix, n.validator_address_prefix));
    }
    if !wf_addr(n.staker_address.as_str(), &n.account_address_prefix) || !wf_addr(n.reward_collector_address.as_str(), &n.account_address_prefix) {
        return Err(format!("staker {} / collector {} not valid under {}", n.staker_address, n.reward_collector_address, n.account_address_prefix));
    }
    if let Some(v) = vals.iter().find(|v| !wf_addr(v, &n.validator_address_prefix)) {
        return Err(format!("validator {v} not valid under {}", n.validator_address_prefix));
    }
    if !no_dups(&vals) {
        return Err(format!("validator listed twice: {:?}", vals));
    }
    if !wf_alpha(&n.token_denom) {
        return Err(format!("native token denom {:?} not alphabetic", n.token_denom));
    }
    Ok(())
}
pub fn wf_protocol(c: &ConfigResponse) -> Result<(), String> {
    let p = &c.protocol_chain_config;
    if !wf_prefix(&p.account_address_prefix) {
        return Err(format!("protocol prefix {:?} not a lower-case bech32 prefix", p.account_address_prefix));
    }
    if !wf_channel(&p.ibc_channel_id) {
        return Err(format!("channel {:?} is not channel-<n>", p.ibc_channel_id));
    }
    if !wf_ibc_denom(&p.ibc_token_denom) {
        return Err(format!("staked-asset denom {:?} is not ibc/ plus 64 characters", p.ibc_token_denom));
    }
    if let Some(o) = &p.oracle_address {
        if !wf_addr(o.as_str(), &p.account_address_prefix) {
            return Err(format!("oracle {o} not valid under {}", p.account_address_prefix));
        }
    }
    Ok(())
}
pub fn wf_fee(c: &ConfigResponse) -> Result<(), String> {
    if let Some(t) = &c.protocol_fee_config.treasury_address {
        if !wf_addr(t.as_str(), &c.protocol_chain_config.account_address_prefix) {
            return Err(format!("treasury {t} not valid under {}", c.protocol_chain_config.account_address_prefix));
        }
    }
    Ok(())
}
pub fn wf_monitors(c: &ConfigResponse) -> Result<(), String> {
    let mons: Vec<String> = c.monitors.iter().map(|a| a.to_string()).collect();
    if let Some(m) = mons.iter().find(|m| !wf_addr(m, &c.protocol_chain_config.account_address_prefix)) {
        return Err(format!("monitor {m} not valid under {}", c.protocol_chain_config.account_address_prefix));
    }
    if !no_dups(&mons) {
        return Err(format!("monitor listed twice: {:?}", mons));
    }
    Ok(())
}

#[derive(Clone, Debug, Serialize, Deserialize)]
pub enum CfgStep {
    /// UpdateConfig with the sections in `mask` (bit 0 native, 1 protocol, 2 fee, 3 monitors, 4 batch period),
    /// built from a fresh valid config (seed) with optional corruptions
    Update { mask: u8, seed: Seed, corrupt: Vec<Corruption>, by_admin: bool },
    /// kind: 0 present, 1 absent valid, 2 wrong prefix, 3 damaged, 4 upper-case of a present one
    Validator { add: bool, kind: u8, idx: u8, by_admin: bool },
}

#[derive(Clone, Debug, Serialize, Deserialize)]
pub struct CfgCase {
    pub seed: Seed,
    pub corrupt: Vec<Corruption>,
    pub steps: Vec<CfgStep>,
}

fn seed_strategy() -> BoxedStrategy<Seed> {
    let pfx = || prop_oneof![Just("celestia".to_string()), Just("osmo".to_string()), Just("init".to_string()), "[a-z]{1,8}", "[a-z]{1,4}[0-9]{0,2}[a-z]{1,2}"];
    (
        (pfx(), pfx(), proptest::option::weighted(0.2, "[a-z]{2,10}"), 0u8..5, 0u8..4, any::<bool>(), any::<bool>()),
        (prop_oneof![Just(0u64), 0u64..1000, any::<u64>()], any::<u8>(), "[a-zA-Z]{4,12}", "[a-z]{4,8}", proptest::bool::weighted(0.2), prop_oneof![4 => Just(0u8), 1 => 1u8..4]),
    )
        .prop_map(|((np, pp, vp_custom, n_val, n_mon, oracle, treasury), (channel, salt, sub, tok, hex_lower, channel_zeros))| Seed {
            np,
            pp,
            vp_custom,
            n_val,
            n_mon,
            oracle,
            treasury,
            channel,
            salt,
            sub,
            tok,
            hex_lower,
            channel_zeros,
        })
        .boxed()
}

fn field_strategy() -> BoxedStrategy<Field> {
    prop_oneof![
        1 => Just(Field::NPrefix),
        1 => Just(Field::VPrefix),
        1 => Just(Field::PPrefix),
        1 => Just(Field::Staker),
        1 => Just(Field::Collector),
        1 => (0u8..5).prop_map(Field::Validator),
        1 => (0u8..4).prop_map(Field::Monitor),
        1 => Just(Field::Oracle),
        1 => Just(Field::Treasury),
        2 => Just(Field::Channel),
        2 => Just(Field::IbcDenom),
        1 => Just(Field::TokenDenom),
        1 => Just(Field::SubDenom),
    ]
    .boxed()
}

fn corruptions() -> BoxedStrategy<Vec<Corruption>> {
    let c = (field_strategy(), any::<u8>()).prop_map(|(field, kind)| Corruption { field, kind });
    prop_oneof![3 => Just(vec![]), 6 => c.clone().prop_map(|c| vec![c]), 1 => proptest::collection::vec(c, 2..4)].boxed()
}

pub fn cfg_case() -> BoxedStrategy<CfgCase> {
    let step = prop_oneof![
        5 => (1u8..32, seed_strategy(), corruptions(), proptest::bool::weighted(0.9))
            .prop_map(|(mask, seed, corrupt, by_admin)| CfgStep::Update { mask, seed, corrupt, by_admin }),
        2 => (any::<bool>(), 0u8..5, 0u8..6, proptest::bool::weighted(0.9))
            .prop_map(|(add, kind, idx, by_admin)| CfgStep::Validator { add, kind, idx, by_admin }),
    ];
    (seed_strategy(), corruptions(), proptest::collection::vec(step, 0..8))
        .prop_map(|(seed, corrupt, steps)| CfgCase { seed, corrupt, steps })
        .boxed()
}

fn relevant(mask: u8, f: &Field) -> bool {
    match f {
        Field::NPrefix | Field::VPrefix | Field::Staker | Field::Collector | Field::Validator(_) | Field::TokenDenom => mask & 1 != 0,
        Field::PPrefix | Field::Oracle | Field::Channel | Field::IbcDenom => mask & 2 != 0,
        Field::Treasury => mask & 4 != 0,
        Field::Monitor(_) => mask & 8 != 0,
        Field::SubDenom => false,
    }
}

thread_local! {
    static PANICS_ONLY: std::cell::Cell<bool> = std::cell::Cell::new(false);
}

/// C16 view of the same cases: only a panic of an entry point counts (whatever the message was).
pub fn check_cfg_case_panics(c: &CfgCase, agg: &mut Agg) -> Result<(), String> {
    PANICS_ONLY.with(|p| p.set(true));
    let r = check_cfg_case(c, agg);
    PANICS_ONLY.with(|p| p.set(false));
    match r {
        Err(m) if m.contains("panic") => Err(m),
        _ => Ok(()),
    }
}

/// C14 states what an *accepted* configuration looks like; that a well-formed one is accepted is demanded only
/// for plain configurations (a fee of at most 100 %, distinct staker and reward collector, moderate periods):
/// an implementation may refuse more than the property lists.
fn must_accept(r: &RawCfg) -> bool {
    r.fee <= 100_000 && r.staker != r.collector && r.batch_period <= 1_000_000_000 && r.unbonding <= 1_000_000_000
}

pub fn check_cfg_case(c: &CfgCase, agg: &mut Agg) -> Result<(), String> {
    let panics_only = PANICS_ONLY.with(|p| p.get());
    let clean = build(&c.seed);
    let mut raw = clean.clone();
    for k in &c.corrupt {
        raw.apply(k);
    }
    let corrupted = raw != clean;
    // the chain's own address rules play no role in these checks: every config address is validated by the contract
    let contract = bech32_encode("osmo", &sha256(b"cfg-contract"));
    let admin = bech32_encode("osmo", &sha256(b"cfg-admin")[..20]);
    let stranger = bech32_encode("osmo", &sha256(b"cfg-stranger")[..20]);
    let mut ch = Chain::new("osmo", "channel-0", &contract);
    let out = ch.instantiate(&admin, raw.init());
    if let Some(p) = &out.panic {
        // C16's domain is "accepted configurations"; a panic while validating is reported there as well,
        // here it only counts when the configuration was clean
        if !corrupted || panics_only {
            return Err(format!("instantiate panicked on a {} configuration: panic {} at {}\n{:?}", if corrupted { "corrupted" } else { "valid" }, p.message, p.location, raw));
        }
        agg.evaluations += 1;
        return Ok(());
    }
    let mut nontrivial = c.corrupt.len() == 1 && corrupted;
    if !out.ok {
        if !corrupted && must_accept(&raw) {
            return Err(format!("a configuration built by the valid generator was rejected: {:?}\n{:?}", out.err, raw));
        }
        agg.evaluations += 1;
        *agg.counters.entry("instantiate.rejected".into()).or_insert(0) += 1;
        if nontrivial {
            agg.nontrivial.insert(u64::from_le_bytes(sha256(format!("{:?}", c).as_bytes())[..8].try_into().unwrap()));
        }
        return Ok(());
    }
    *agg.counters.entry(if corrupted { "instantiate.accepted_corrupted" } else { "instantiate.accepted_clean" }.into()).or_insert(0) += 1;
    let cfg: ConfigResponse = ch.query(QueryMsg::Config {})?;
    let ctx = |e: String| format!("instantiate accepted {:?}\n  but {e}", raw);
    wf_native(&cfg).map_err(ctx)?;
    wf_protocol(&cfg).map_err(ctx)?;
    wf_fee(&cfg).map_err(ctx)?;
    wf_monitors(&cfg).map_err(ctx)?;
    let sub = cfg.liquid_stake_token_denom.strip_prefix(&format!("factory/{contract}/")).unwrap_or("/");
    if !wf_alpha(&raw.subdenom) {
        return Err(ctx(format!("the supplied token sub-denom {:?} is not alphabetic", raw.subdenom)));
    }
    if !wf_alpha(sub) || !cfg.stopped {
        return Err(ctx(format!("LST denom {:?} / stopped={}", cfg.liquid_stake_token_denom, cfg.stopped)));
    }
    let lst = cfg.liquid_stake_token_denom.clone();
    let mut cur = cfg;
    for (i, st) in c.steps.iter().enumerate() {
        match st {
            CfgStep::Update { mask, seed, corrupt, by_admin } => {
                let clean2 = build(seed);
                let mut r2 = clean2.clone();
                let mut n_rel = 0;
                for k in corrupt {
                    if relevant(*mask, &k.field) {
                        r2.apply(k);
                        n_rel += 1;
                    }
                }
                // sections refer to the prefixes in force: if the protocol section is not supplied, fee and
                // monitors must be valid under the stored protocol prefix
                let stored_pp = cur.protocol_chain_config.account_address_prefix.clone();
                if mask & 2 == 0 && r2 == clean2 {
                    let mut s2 = seed.clone();
                    s2.pp = stored_pp.clone();
                    let rebuilt = build(&s2);
                    r2.treasury = rebuilt.treasury;
                    r2.monitors = rebuilt.monitors;
                }
                let was_clean = n_rel == 0 || r2 == clean2;
                let sender = if *by_admin { &admin } else { &stranger };
                let msg = ExecuteMsg::UpdateConfig {
                    native_chain_config: if mask & 1 != 0 { Some(r2.native()) } else { None },
                    protocol_chain_config: if mask & 2 != 0 { Some(r2.protocol()) } else { None },
                    protocol_fee_config: if mask & 4 != 0 { Some(r2.fee()) } else { None },
                    monitors: if mask & 8 != 0 { Some(r2.monitors.clone()) } else { None },
                    batch_period: if mask & 16 != 0 { Some(r2.batch_period) } else { None },
                };
                let before_storage = ch.w.storage.clone();
                let out = ch.execute(sender, &[], msg);
                let what = format!("step {i}: UpdateConfig mask={mask:#07b} by_admin={by_admin} {:?}", r2);
                if let Some(p) = &out.panic {
                    if was_clean || panics_only {
                        return Err(format!("{what}: panic {} at {}", p.message, p.location));
                    }
                    continue;
                }
                if !by_admin {
                    if out.ok {
                        return Err(format!("{what}: accepted from a non-admin"));
                    }
                    continue;
                }
                if !out.ok {
                    if ch.w.storage != before_storage {
                        return Err(format!("{what}: rejected but storage changed"));
                    }
                    if was_clean && must_accept(&r2) {
                        return Err(format!("{what}: a valid update was rejected: {:?}", out.err));
                    }
                    if n_rel == 1 {
                        nontrivial = true;
                    }
                    *agg.counters.entry("update.rejected".into()).or_insert(0) += 1;
                    continue;
                }
                *agg.counters.entry(if was_clean { "update.accepted_clean" } else { "update.accepted_corrupted" }.into()).or_insert(0) += 1;
                let now: ConfigResponse = ch.query(QueryMsg::Config {})?;
                let ctx = |e: String| format!("{what}\n  accepted but {e}");
                if mask & 1 != 0 {
                    wf_native(&now).map_err(ctx)?;
                } else if now.native_chain_config != cur.native_chain_config {
                    return Err(ctx("native section changed although not supplied".into()));
                }
                if mask & 2 != 0 {
                    wf_protocol(&now).map_err(ctx)?;
                } else if now.protocol_chain_config != cur.protocol_chain_config {
                    return Err(ctx("protocol section changed although not supplied".into()));
                }
                if mask & 4 != 0 {
                    wf_fee(&now).map_err(ctx)?;
                } else if now.protocol_fee_config != cur.protocol_fee_config {
                    return Err(ctx("fee section changed although not supplied".into()));
                }
                if mask & 8 != 0 {
                    wf_monitors(&now).map_err(ctx)?;
                } else if now.monitors != cur.monitors {
                    return Err(ctx("monitors changed although not supplied".into()));
                }
                if mask & 16 == 0 && now.batch_period != cur.batch_period {
                    return Err(ctx("batch period changed although not supplied".into()));
                }
                if mask & 16 != 0 && now.batch_period != r2.batch_period {
                    return Err(ctx("batch period not stored".into()));
                }
                if now.liquid_stake_token_denom != lst || !now.stopped {
                    return Err(ctx(format!("LST denom / halted flag changed: {:?} stopped={}", now.liquid_stake_token_denom, now.stopped)));
                }
                // supplied clean sections are stored as supplied
                if was_clean {
                    if mask & 1 != 0 && (now.native_chain_config.staker_address.as_str() != r2.staker || now.native_chain_config.validators.len() != r2.validators.len() || now.native_chain_config.unbonding_period != r2.unbonding) {
                        return Err(ctx("native section not stored as supplied".into()));
                    }
                    if mask & 2 != 0 && (now.protocol_chain_config.ibc_channel_id != r2.channel || now.protocol_chain_config.ibc_token_denom != r2.ibc_denom || now.protocol_chain_config.minimum_liquid_stake_amount.u128() != r2.min_stake) {
                        return Err(ctx("protocol section not stored as supplied".into()));
                    }
                    if mask & 4 != 0 && (now.protocol_fee_config.dao_treasury_fee.u128() != r2.fee || now.protocol_fee_config.treasury_address.as_ref().map(|a| a.to_string()) != r2.treasury) {
                        return Err(ctx("fee section not stored as supplied".into()));
                    }
                    // only the raw diff of `config` may differ
                    let keys: Vec<String> = before_storage.diff_keys(&ch.w.storage).iter().map(|k| crate::store::key_namespace(k)).collect();
                    if keys.iter().any(|k| k != "config" && crate::store::known_namespace(k)) {
                        return Err(ctx(format!("storage outside the config item changed: {:?}", keys)));
                    }
                    if *mask != 31 {
                        nontrivial = true;
                    }
                }
                cur = now;
            }
            CfgStep::Validator { add, kind, idx, by_admin } => {
                let vp = cur.native_chain_config.validator_address_prefix.clone();
                let present: Vec<String> = cur.native_chain_config.validators.iter().map(|a| a.to_string()).collect();
                let fresh = bech32_encode(&vp, &sha256(format!("fresh{idx}").as_bytes())[..20]);
                let pick_present = || present.get(*idx as usize % present.len().max(1)).cloned();
                let v = match kind % 5 {
                    0 => pick_present().unwrap_or(fresh.clone()),
                    1 => fresh.clone(),
                    2 => bech32_encode(&cur.native_chain_config.account_address_prefix, &sha256(b"np")[..20]),
                    3 => corrupt_addr(&fresh, 5 + *idx, "x"),
                    _ => pick_present().map(|p| p.to_uppercase()).unwrap_or(fresh.clone()),
                };
                let is_present = present.contains(&v);
                let valid = wf_addr(&v, &vp);
                let sender = if *by_admin { &admin } else { &stranger };
                let msg = if *add { ExecuteMsg::AddValidator { new_validator: v.clone() } } else { ExecuteMsg::RemoveValidator { validator: v.clone() } };
                let out = ch.execute(sender, &[], msg);
                let what = format!("step {i}: {} {v} by_admin={by_admin}; present {:?}", if *add { "AddValidator" } else { "RemoveValidator" }, present);
                if let Some(p) = &out.panic {
                    return Err(format!("{what}: panic {} at {}", p.message, p.location));
                }
                let want = *by_admin && valid && (*add != is_present);
                // an upper-case spelling of a listed validator is a different string: adopt (DESIGN 1.1)
                let mut adopt = kind % 5 == 4 && v != v.to_lowercase() && valid;
                // a valid-but-unusual spelling (bech32m checksum, payload that is not 20/32 bytes, upper case) may be refused
                let plain = crate::crypto::bech32_decode(&v).map(|d| !d.upper && d.classic && matches!(d.payload().map(|p| p.len()), Some(20) | Some(32))).unwrap_or(false);
                if valid && !plain && *by_admin && !out.ok {
                    adopt = true;
                }
                if out.ok != want && !adopt {
                    return Err(format!("{what}: ok={} but expected {want} (valid under {vp}: {valid}, listed: {is_present}) err={:?}", out.ok, out.err));
                }
                let now: ConfigResponse = ch.query(QueryMsg::Config {})?;
                let mut expect = present.clone();
                if out.ok {
                    if *add {
                        expect.push(v.clone());
                    } else {
                        expect.retain(|x| *x != v);
                    }
                    nontrivial = true;
                }
                let got: Vec<String> = now.native_chain_config.validators.iter().map(|a| a.to_string()).collect();
                let mut rest_now = now.clone();
                rest_now.native_chain_config.validators = cur.native_chain_config.validators.clone();
                if got != expect || rest_now != cur {
                    return Err(format!("{what}: validators now {:?}, expected {:?}; or something else changed", got, expect));
                }
                if out.ok && !adopt {
                    wf_native(&now).map_err(|e| format!("{what}: {e}"))?;
                }
                cur = now;
            }
        }
    }
    agg.evaluations += 1;
    if nontrivial {
        agg.nontrivial.insert(u64::from_le_bytes(sha256(format!("{:?}", c).as_bytes())[..8].try_into().unwrap()));
    }
    Ok(())
}

pub fn check_c14(cases: u64, seed: u64) -> RunOutput {
    drive(cfg_case, cases, seed, 14, |c: &CfgCase, agg: &mut Agg| check_cfg_case(c, agg))
}
