//! Minimal hand-written protobuf wire reader/writer.  Field numbers used by the callers come from
//! the upstream .proto definitions (DESIGN.md appendix B), never from the prost types under test.

#[derive(Debug, Clone, PartialEq, Eq)]
pub enum Wire {
    Varint(u64),
    I64(u64),
    Len(Vec<u8>),
    I32(u32),
}

#[derive(Debug, Clone, PartialEq, Eq)]
pub struct Field {
    pub no: u32,
    pub val: Wire,
}

pub fn read_varint(b: &[u8], pos: &mut usize) -> Option<u64> {
    let mut out: u64 = 0;
    for i in 0..10 {
        let byte = *b.get(*pos)?;
        *pos += 1;
        if i == 9 && byte > 1 {
            return None;
        }
        out |= ((byte & 0x7f) as u64) << (7 * i);
        if byte & 0x80 == 0 {
            return Some(out);
        }
    }
    None
}

/// Parse a message into its top-level fields in wire order; None on malformed input
/// (groups are treated as malformed: proto3 messages here never use them).
pub fn parse(b: &[u8]) -> Option<Vec<Field>> {
    let mut pos = 0;
    let mut out = vec![];
    while pos < b.len() {
        let key = read_varint(b, &mut pos)?;
        let no = (key >> 3) as u32;
        if no == 0 || key >> 3 > 0x1fff_ffff {
            return None;
        }
        let val = match key & 7 {
            0 => Wire::Varint(read_varint(b, &mut pos)?),
            1 => {
                let s = b.get(pos..pos + 8)?;
                pos += 8;
                Wire::I64(u64::from_le_bytes(s.try_into().unwrap()))
            }
            2 => {
                let n = read_varint(b, &mut pos)? as usize;
                let s = b.get(pos..pos.checked_add(n)?)?;
                pos += n;
                Wire::Len(s.to_vec())
            }
            5 => {
                let s = b.get(pos..pos + 4)?;
                pos += 4;
                Wire::I32(u32::from_le_bytes(s.try_into().unwrap()))
            }
            _ => return None,
        };
        out.push(Field { no, val });
    }
    Some(out)
}

pub struct Msg(pub Vec<Field>);

impl Msg {
    pub fn parse(b: &[u8]) -> Option<Msg> {
        parse(b).map(Msg)
    }
    pub fn all(&self, no: u32) -> Vec<&Wire> {
        self.0.iter().filter(|f| f.no == no).map(|f| &f.val).collect()
    }
    /// proto3 singular string: last occurrence wins, absent = "".
    pub fn string(&self, no: u32) -> Option<String> {
        match self.all(no).last() {
            None => Some(String::new()),
            Some(Wire::Len(b)) => String::from_utf8(b.clone()).ok(),
            _ => None,
        }
    }
    pub fn bytes(&self, no: u32) -> Option<Vec<u8>> {
        match self.all(no).last() {
            None => Some(vec![]),
            Some(Wire::Len(b)) => Some(b.clone()),
            _ => None,
        }
    }
    pub fn uint(&self, no: u32) -> Option<u64> {
        match self.all(no).last() {
            None => Some(0),
            Some(Wire::Varint(v)) => Some(*v),
            _ => None,
        }
    }
    pub fn sub(&self, no: u32) -> Option<Option<Msg>> {
        match self.all(no).last() {
            None => Some(None),
            Some(Wire::Len(b)) => Msg::parse(b).map(Some),
            _ => None,
        }
    }
    pub fn subs(&self, no: u32) -> Option<Vec<Msg>> {
        self.all(no)
            .into_iter()
            .map(|w| match w {
                Wire::Len(b) => Msg::parse(b),
                _ => None,
            })
            .collect()
    }
    /// Only the listed field numbers occur, each at most once unless listed in `repeated`,
    /// in non-decreasing field order (what a canonical encoder produces).
    pub fn canonical(&self, allowed: &[u32], repeated: &[u32]) -> bool {
        let mut last = 0;
        for f in &self.0 {
            if !allowed.contains(&f.no) {
                return false;
            }
            if f.no < last || (f.no == last && !repeated.contains(&f.no)) {
                return false;
            }
            last = f.no;
        }
        true
    }
}

#[derive(Debug, Clone, PartialEq, Eq)]
pub struct PbCoin {
    pub denom: String,
    pub amount: String,
}

pub fn coin(m: &Msg) -> Option<PbCoin> {
    if !m.canonical(&[1, 2], &[]) {
        return None;
    }
    Some(PbCoin { denom: m.string(1)?, amount: m.string(2)? })
}

// ---- writer ----
pub fn put_varint(out: &mut Vec<u8>, mut v: u64) {
    loop {
        let b = (v & 0x7f) as u8;
        v >>= 7;
        if v == 0 {
            out.push(b);
            return;
        }
        out.push(b | 0x80);
    }
}
pub fn put_key(out: &mut Vec<u8>, no: u32, wt: u8) {
    put_varint(out, ((no as u64) << 3) | wt as u64);
}
pub fn put_len(out: &mut Vec<u8>, no: u32, b: &[u8]) {
    put_key(out, no, 2);
    put_varint(out, b.len() as u64);
    out.extend_from_slice(b);
}
pub fn put_uint(out: &mut Vec<u8>, no: u32, v: u64) {
    put_key(out, no, 0);
    put_varint(out, v);
}
