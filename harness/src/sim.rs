//! Deterministic single-threaded chain simulator around the real staking contract:
//! bank, token factory, ICS-20 transfer module, ibc-hooks (both directions), oracle stub,
//! CosmWasm sub-message / reply / rollback semantics, and a native-chain ledger.

use crate::crypto;
use crate::pb;
use crate::store::{MemStorage, SimApi};
use cosmwasm_std::{
    Addr, BankMsg, Binary, BlockInfo, Coin, ContractInfo, CosmosMsg, Deps, DepsMut, Empty, Env, MessageInfo,
    QuerierWrapper, Reply, ReplyOn, Response, SubMsg, SubMsgResponse, SubMsgResult, Timestamp, TransactionInfo,
};
use staking::error::ContractError;
use staking::msg::{ExecuteMsg, IBCLifecycleComplete, InstantiateMsg, MigrateMsg, QueryMsg, SudoMsg};
use std::cell::RefCell;
use std::collections::BTreeMap;
use std::panic::{catch_unwind, AssertUnwindSafe};

// ---------------------------------------------------------------- panic capture (C16)

#[derive(Debug, Clone, PartialEq, Eq)]
pub struct PanicInfo {
    pub message: String,
    pub location: String,
}

thread_local! {
    static LAST_PANIC: RefCell<Option<PanicInfo>> = RefCell::new(None);
    static IN_GUARD: RefCell<bool> = RefCell::new(false);
}

pub fn install_panic_hook() {
    static ONCE: std::sync::Once = std::sync::Once::new();
    ONCE.call_once(|| {
        let prev = std::panic::take_hook();
        std::panic::set_hook(Box::new(move |info| {
            let guarded = IN_GUARD.with(|g| *g.borrow());
            if guarded {
                let message = if let Some(s) = info.payload().downcast_ref::<&str>() {
                    s.to_string()
                } else if let Some(s) = info.payload().downcast_ref::<String>() {
                    s.clone()
                } else {
                    "<non-string panic>".to_string()
                };
                let location = info
                    .location()
                    .map(|l| {
                        let f = l.file();
                        let f = f.rsplit("/repo/").next().unwrap_or(f);
                        format!("{}:{}", f, l.line())
                    })
                    .unwrap_or_default();
                LAST_PANIC.with(|p| *p.borrow_mut() = Some(PanicInfo { message, location }));
            } else {
                prev(info);
            }
        }));
    });
}

/// Run `f`; a panic inside is captured (message + source location) instead of unwinding further.
pub fn guarded<T>(f: impl FnOnce() -> T) -> Result<T, PanicInfo> {
    install_panic_hook();
    IN_GUARD.with(|g| *g.borrow_mut() = true);
    let r = catch_unwind(AssertUnwindSafe(f));
    IN_GUARD.with(|g| *g.borrow_mut() = false);
    match r {
        Ok(v) => Ok(v),
        Err(_) => Err(LAST_PANIC
            .with(|p| p.borrow_mut().take())
            .unwrap_or(PanicInfo { message: "<unknown>".into(), location: String::new() })),
    }
}

// ---------------------------------------------------------------- ledgers

pub type Ledger = BTreeMap<(String, String), u128>;

fn credit(l: &mut Ledger, who: &str, denom: &str, amt: u128) {
    if amt == 0 {
        return;
    }
    *l.entry((who.to_string(), denom.to_string())).or_insert(0) += amt;
}

fn debit(l: &mut Ledger, who: &str, denom: &str, amt: u128) -> Result<(), String> {
    if amt == 0 {
        return Ok(());
    }
    let k = (who.to_string(), denom.to_string());
    let cur = l.get(&k).copied().unwrap_or(0);
    if cur < amt {
        return Err(format!("insufficient funds: {who} has {cur}{denom}, needs {amt}"));
    }
    if cur == amt {
        l.remove(&k);
    } else {
        l.insert(k, cur - amt);
    }
    Ok(())
}

#[derive(Debug, Clone, Copy, PartialEq, Eq, serde::Serialize)]
pub enum PacketState {
    InFlight,
    Delivered,
    FailedAck,
    TimedOut,
}

#[derive(Debug, Clone, PartialEq, Eq, serde::Serialize)]
pub struct Packet {
    pub seq: u64,
    pub channel: String,
    pub sender: String,
    pub receiver: String,
    pub denom: String,
    pub amount: u128,
    pub memo: String,
    pub timeout_ns: u64,
    pub state: PacketState,
}

#[derive(Debug, Clone, Copy, PartialEq, Eq)]
pub enum IbcOutcome {
    Ack,
    ErrAck,
    Timeout,
}

#[derive(Debug, Clone, PartialEq, Eq, serde::Serialize)]
pub enum Effect {
    CreateDenom { module: String, sender: String, subdenom: String, denom: String, canonical: bool },
    Mint { module: String, sender: String, denom: String, amount: u128, to: String, canonical: bool },
    Burn { module: String, sender: String, denom: String, amount: u128, from: String, canonical: bool },
    BankSend { from: String, to: String, denom: String, amount: u128 },
    Transfer { seq: u64, channel: String, receiver: String, denom: String, amount: u128, memo: String, timeout_ns: u64 },
    OraclePost { oracle: String, sender: String, n_funds: usize, json: String },
}

#[derive(Debug, Clone, Copy, PartialEq, Eq, serde::Serialize)]
pub enum ErrKind {
    /// ContractError::Unauthorized / Admin(NotAdmin)
    Auth,
    NoPendingOwner,
    OwnershipNotReady,
    Halted,
    /// anything else returned by the contract
    Other,
    /// the failure came from the chain (bank, ibc, token factory, oracle), not from the contract
    Chain,
    Panic,
}

#[derive(Debug, Clone)]
pub struct TxOutcome {
    pub ok: bool,
    pub err: Option<String>,
    pub kind: Option<ErrKind>,
    pub panic: Option<PanicInfo>,
    /// effects of the committed transaction (empty when it failed)
    pub effects: Vec<Effect>,
    /// every effect attempted, including those rolled back (diagnostics only)
    pub attempted: usize,
    pub attributes: Vec<(String, String)>,
}

impl TxOutcome {
    fn fail(err: String, kind: ErrKind, panic: Option<PanicInfo>) -> Self {
        TxOutcome { ok: false, err: Some(err), kind: Some(kind), panic, effects: vec![], attempted: 0, attributes: vec![] }
    }
}

pub fn classify(e: &ContractError) -> ErrKind {
    match e {
        ContractError::Unauthorized { .. } | ContractError::Admin(_) => ErrKind::Auth,
        ContractError::NoPendingOwner {} => ErrKind::NoPendingOwner,
        ContractError::OwnershipTransferNotReady { .. } => ErrKind::OwnershipNotReady,
        ContractError::Halted {} => ErrKind::Halted,
        _ => ErrKind::Other,
    }
}

/// Everything that a transaction can change; cloned for rollback.
#[derive(Clone, Debug, PartialEq)]
pub struct World {
    pub storage: MemStorage,
    pub bank: Ledger,
    pub supply: BTreeMap<String, u128>,
    pub denom_admin: BTreeMap<String, String>,
    pub packets: BTreeMap<u64, Packet>,
    pub next_seq: u64,
    /// native-chain balances: (account, denom) -> amount
    pub native: Ledger,
    pub oracle_posts: u64,
}

#[derive(Clone, Debug)]
pub struct Chain {
    pub w: World,
    /// real bech32 prefix of the protocol chain
    pub prefix: String,
    /// the transfer channel that really exists on the protocol chain
    pub channel: String,
    pub contract: String,
    /// contracts that exist besides the staking contract (the oracle stub)
    pub oracle: Option<String>,
    pub oracle_rejects: bool,
    pub time_ns: u64,
    pub height: u64,
    pub tx_index: u32,
    /// fail the n-th transfer submission of the next transaction (0-based), if set
    pub fail_transfer: Option<u32>,
    /// which module URLs this chain's token factory answers to
    pub tf_modules: Vec<String>,
    transfers_seen_in_tx: u32,
    /// the last signed / hook transaction submitted (for metamorphic re-submission on another copy)
    pub last_tx: Option<RecordedTx>,
}

#[derive(Clone, Debug)]
pub struct RecordedTx {
    pub sender: String,
    pub funds: Vec<Coin>,
    pub msg: ExecuteMsg,
    /// (channel, native sender, denom here, amount) when it came in through ibc-hooks
    pub hook: Option<(String, String, String, u128)>,
    pub time_ns: u64,
}

pub const OSMOSIS_TF: &str = "/osmosis.tokenfactory.v1beta1.";
pub const MINIWASM_TF: &str = "/miniwasm.tokenfactory.v1.";

impl Chain {
    pub fn new(prefix: &str, channel: &str, contract: &str) -> Self {
        Chain {
            w: World {
                storage: MemStorage::default(),
                bank: Ledger::new(),
                supply: BTreeMap::new(),
                denom_admin: BTreeMap::new(),
                packets: BTreeMap::new(),
                next_seq: 1,
                native: Ledger::new(),
                oracle_posts: 0,
            },
            prefix: prefix.to_string(),
            channel: channel.to_string(),
            contract: contract.to_string(),
            oracle: None,
            oracle_rejects: false,
            time_ns: 1_700_000_000_000_000_000,
            height: 100,
            tx_index: 0,
            fail_transfer: None,
            tf_modules: vec![if cfg!(feature = "miniwasm") { MINIWASM_TF.to_string() } else { OSMOSIS_TF.to_string() }],
            transfers_seen_in_tx: 0,
            last_tx: None,
        }
    }

    pub fn now_s(&self) -> u64 {
        self.time_ns / 1_000_000_000
    }

    pub fn env(&self) -> Env {
        Env {
            block: BlockInfo { height: self.height, time: Timestamp::from_nanos(self.time_ns), chain_id: "sim-1".into() },
            transaction: Some(TransactionInfo { index: self.tx_index }),
            contract: ContractInfo { address: Addr::unchecked(&self.contract) },
        }
    }

    pub fn api(&self) -> SimApi {
        SimApi { prefix: self.prefix.clone() }
    }

    pub fn balance(&self, who: &str, denom: &str) -> u128 {
        self.w.bank.get(&(who.to_string(), denom.to_string())).copied().unwrap_or(0)
    }
    pub fn native_balance(&self, who: &str, denom: &str) -> u128 {
        self.w.native.get(&(who.to_string(), denom.to_string())).copied().unwrap_or(0)
    }
    pub fn supply_of(&self, denom: &str) -> u128 {
        self.w.supply.get(denom).copied().unwrap_or(0)
    }
    /// Faucet for non-factory denoms (vouchers arriving over IBC from elsewhere).
    pub fn faucet(&mut self, who: &str, denom: &str, amt: u128) {
        credit(&mut self.w.bank, who, denom, amt);
    }

    // ------------------------------------------------------------ entry points

    pub fn query<T: serde::de::DeserializeOwned>(&self, msg: QueryMsg) -> Result<T, String> {
        let api = self.api();
        let q = crate::store::BankQuerier { bank: self.w.bank.clone() };
        let deps = Deps { storage: &self.w.storage, api: &api, querier: QuerierWrapper::new(&q) };
        let env = self.env();
        match guarded(|| staking::contract::query(deps, env, msg)) {
            Ok(Ok(b)) => cosmwasm_std::from_json(&b).map_err(|e| format!("undecodable query response: {e}")),
            Ok(Err(e)) => Err(format!("query error: {e}")),
            Err(p) => Err(format!("PANIC {} at {}", p.message, p.location)),
        }
    }

    /// Query that distinguishes a panic (C16) from an error.
    pub fn query_raw(&self, msg: QueryMsg) -> Result<Result<Binary, String>, PanicInfo> {
        let api = self.api();
        let q = crate::store::BankQuerier { bank: self.w.bank.clone() };
        let deps = Deps { storage: &self.w.storage, api: &api, querier: QuerierWrapper::new(&q) };
        let env = self.env();
        guarded(|| staking::contract::query(deps, env, msg)).map(|r| r.map_err(|e| e.to_string()))
    }

    pub fn instantiate(&mut self, sender: &str, msg: InstantiateMsg) -> TxOutcome {
        self.run_tx(|ch, eff| {
            let api = ch.api();
            let q = crate::store::BankQuerier { bank: ch.w.bank.clone() };
            let env = ch.env();
            let info = MessageInfo { sender: Addr::unchecked(sender), funds: vec![] };
            let r = guarded(|| {
                let deps = DepsMut { storage: &mut ch.w.storage, api: &api, querier: QuerierWrapper::new(&q) };
                staking::contract::instantiate(deps, env, info, msg)
            });
            ch.finish_call(r, eff)
        })
    }

    pub fn migrate(&mut self, msg: MigrateMsg) -> TxOutcome {
        self.run_tx(|ch, eff| {
            let api = ch.api();
            let q = crate::store::BankQuerier { bank: ch.w.bank.clone() };
            let env = ch.env();
            let r = guarded(|| {
                let deps = DepsMut { storage: &mut ch.w.storage, api: &api, querier: QuerierWrapper::new(&q) };
                staking::contract::migrate(deps, env, msg)
            });
            ch.finish_call(r, eff)
        })
    }

    /// A signed transaction carrying one MsgExecuteContract.
    pub fn execute(&mut self, sender: &str, funds: &[Coin], msg: ExecuteMsg) -> TxOutcome {
        self.last_tx = Some(RecordedTx { sender: sender.to_string(), funds: funds.to_vec(), msg: msg.clone(), hook: None, time_ns: self.time_ns });
        self.run_tx(|ch, eff| ch.execute_inner(sender, funds, msg, eff))
    }

    fn execute_inner(
        &mut self,
        sender: &str,
        funds: &[Coin],
        msg: ExecuteMsg,
        eff: &mut Vec<Effect>,
    ) -> Result<Vec<(String, String)>, (String, ErrKind, Option<PanicInfo>)> {
        for c in funds {
            debit(&mut self.w.bank, sender, &c.denom, c.amount.u128()).map_err(|e| (e, ErrKind::Chain, None))?;
            credit(&mut self.w.bank, &self.contract.clone(), &c.denom, c.amount.u128());
        }
        let api = self.api();
        let q = crate::store::BankQuerier { bank: self.w.bank.clone() };
        let env = self.env();
        let info = MessageInfo { sender: Addr::unchecked(sender), funds: funds.to_vec() };
        let r = guarded(|| {
            let deps = DepsMut { storage: &mut self.w.storage, api: &api, querier: QuerierWrapper::new(&q) };
            staking::contract::execute(deps, env, info, msg)
        });
        self.finish_call(r, eff)
    }

    /// ibc-hooks callback / stray sudo.  Returns the outcome; an error never reverts the ack.
    pub fn sudo(&mut self, msg: SudoMsg) -> TxOutcome {
        self.run_tx(|ch, eff| {
            let api = ch.api();
            let q = crate::store::BankQuerier { bank: ch.w.bank.clone() };
            let env = ch.env();
            let r = guarded(|| {
                let deps = DepsMut { storage: &mut ch.w.storage, api: &api, querier: QuerierWrapper::new(&q) };
                staking::contract::sudo(deps, env, msg)
            });
            ch.finish_call(r, eff)
        })
    }

    /// Direct call of the reply entry point with an arbitrary Reply (C16 hostile profile).
    pub fn raw_reply(&mut self, reply: Reply) -> TxOutcome {
        self.run_tx(|ch, eff| {
            let api = ch.api();
            let q = crate::store::BankQuerier { bank: ch.w.bank.clone() };
            let env = ch.env();
            let r = guarded(|| {
                let deps = DepsMut { storage: &mut ch.w.storage, api: &api, querier: QuerierWrapper::new(&q) };
                staking::contract::reply(deps, env, reply)
            });
            ch.finish_call(r, eff)
        })
    }

    fn finish_call(
        &mut self,
        r: Result<Result<Response, ContractError>, PanicInfo>,
        eff: &mut Vec<Effect>,
    ) -> Result<Vec<(String, String)>, (String, ErrKind, Option<PanicInfo>)> {
        match r {
            Err(p) => Err((format!("PANIC {} at {}", p.message, p.location), ErrKind::Panic, Some(p))),
            Ok(Err(e)) => Err((format!("{e} [{e:?}]"), classify(&e), None)),
            Ok(Ok(resp)) => {
                let attrs: Vec<(String, String)> =
                    resp.attributes.iter().map(|a| (a.key.clone(), a.value.clone())).collect();
                self.dispatch(resp.messages, eff)?;
                Ok(attrs)
            }
        }
    }

    fn run_tx(
        &mut self,
        f: impl FnOnce(&mut Chain, &mut Vec<Effect>) -> Result<Vec<(String, String)>, (String, ErrKind, Option<PanicInfo>)>,
    ) -> TxOutcome {
        let snapshot = self.w.clone();
        self.transfers_seen_in_tx = 0;
        let mut eff = vec![];
        let r = f(self, &mut eff);
        self.fail_transfer = None;
        self.tx_index += 1;
        match r {
            Ok(attributes) => {
                TxOutcome { ok: true, err: None, kind: None, panic: None, attempted: eff.len(), effects: eff, attributes }
            }
            Err((e, k, p)) => {
                self.w = snapshot;
                let mut o = TxOutcome::fail(e, k, p);
                o.attempted = eff.len();
                o
            }
        }
    }

    // ------------------------------------------------------------ message dispatch

    fn dispatch(
        &mut self,
        msgs: Vec<SubMsg>,
        eff: &mut Vec<Effect>,
    ) -> Result<(), (String, ErrKind, Option<PanicInfo>)> {
        for sm in msgs {
            let ledgers = (
                self.w.bank.clone(),
                self.w.supply.clone(),
                self.w.denom_admin.clone(),
                self.w.packets.clone(),
                self.w.next_seq,
                self.w.oracle_posts,
            );
            let eff_len = eff.len();
            let res = self.handle_msg(&sm.msg, eff);
            let result = match res {
                Ok(data) => {
                    if matches!(sm.reply_on, ReplyOn::Always | ReplyOn::Success) {
                        Some(SubMsgResult::Ok(SubMsgResponse { events: vec![], data }))
                    } else {
                        None
                    }
                }
                Err(e) => {
                    // the sub-message's own effects are reverted
                    self.w.bank = ledgers.0;
                    self.w.supply = ledgers.1;
                    self.w.denom_admin = ledgers.2;
                    self.w.packets = ledgers.3;
                    self.w.next_seq = ledgers.4;
                    self.w.oracle_posts = ledgers.5;
                    eff.truncate(eff_len);
                    if matches!(sm.reply_on, ReplyOn::Always | ReplyOn::Error) {
                        Some(SubMsgResult::Err(e))
                    } else {
                        return Err((format!("message failed: {e}"), ErrKind::Chain, None));
                    }
                }
            };
            if let Some(result) = result {
                let api = self.api();
                let q = crate::store::BankQuerier { bank: self.w.bank.clone() };
                let env = self.env();
                let reply = Reply { id: sm.id, result };
                let r = guarded(|| {
                    let deps = DepsMut { storage: &mut self.w.storage, api: &api, querier: QuerierWrapper::new(&q) };
                    staking::contract::reply(deps, env, reply)
                });
                self.finish_call(r, eff)?;
            }
        }
        Ok(())
    }

    fn handle_msg(&mut self, msg: &CosmosMsg<Empty>, eff: &mut Vec<Effect>) -> Result<Option<Binary>, String> {
        let contract = self.contract.clone();
        match msg {
            CosmosMsg::Bank(BankMsg::Send { to_address, amount }) => {
                for c in amount {
                    self.bank_send(&contract, to_address, &c.denom, c.amount.u128(), eff)?;
                }
                Ok(None)
            }
            CosmosMsg::Stargate { type_url, value } => self.handle_stargate(type_url, value.as_slice(), eff),
            // the same call expressed as a CosmWasm message instead of a Stargate payload
            CosmosMsg::Wasm(cosmwasm_std::WasmMsg::Execute { contract_addr, msg, funds }) => {
                if self.oracle.as_deref() != Some(contract_addr.as_str()) {
                    return Err(format!("no such contract {contract_addr}"));
                }
                if self.oracle_rejects {
                    return Err("oracle rejected the message".into());
                }
                let json = String::from_utf8(msg.to_vec()).map_err(|_| "oracle msg not utf8")?;
                serde_json::from_str::<serde_json::Value>(&json).map_err(|_| "oracle msg not json")?;
                self.w.oracle_posts += 1;
                eff.push(Effect::OraclePost { oracle: contract_addr.clone(), sender: contract.clone(), n_funds: funds.len(), json });
                Ok(None)
            }
            other => Err(format!("unsupported message {:?}", other)),
        }
    }

    fn bank_send(&mut self, from: &str, to: &str, denom: &str, amt: u128, eff: &mut Vec<Effect>) -> Result<(), String> {
        // the SDK rejects recipients that are not valid addresses of this chain
        self.api().addr_validate_str(to)?;
        debit(&mut self.w.bank, from, denom, amt)?;
        credit(&mut self.w.bank, to, denom, amt);
        eff.push(Effect::BankSend { from: from.into(), to: to.into(), denom: denom.into(), amount: amt });
        Ok(())
    }

    fn handle_stargate(&mut self, url: &str, value: &[u8], eff: &mut Vec<Effect>) -> Result<Option<Binary>, String> {
        let m = pb::Msg::parse(value).ok_or("malformed protobuf")?;
        let signer_ok = |s: &str| if s == self.contract { Ok(()) } else { Err(format!("signer {s} is not the executing contract")) };
        if url == "/cosmos.bank.v1beta1.MsgSend" {
            let from = m.string(1).ok_or("bad from")?;
            let to = m.string(2).ok_or("bad to")?;
            signer_ok(&from)?;
            for c in m.subs(3).ok_or("bad coins")? {
                let c = pb::coin(&c).ok_or("bad coin")?;
                let amt: u128 = c.amount.parse().map_err(|_| "bad amount")?;
                self.bank_send(&from, &to, &c.denom, amt, eff)?;
            }
            return Ok(None);
        }
        if url == "/ibc.applications.transfer.v1.MsgTransfer" {
            return self.handle_transfer(&m, eff);
        }
        if url == "/cosmwasm.wasm.v1.MsgExecuteContract" {
            let sender = m.string(1).ok_or("bad sender")?;
            let target = m.string(2).ok_or("bad contract")?;
            let body = m.bytes(3).ok_or("bad msg")?;
            let funds = m.subs(5).ok_or("bad funds")?;
            signer_ok(&sender)?;
            if self.oracle.as_deref() != Some(target.as_str()) {
                return Err(format!("no such contract {target}"));
            }
            if self.oracle_rejects {
                return Err("oracle rejected the message".into());
            }
            let json = String::from_utf8(body).map_err(|_| "oracle msg not utf8")?;
            serde_json::from_str::<serde_json::Value>(&json).map_err(|_| "oracle msg not json")?;
            self.w.oracle_posts += 1;
            eff.push(Effect::OraclePost { oracle: target, sender, n_funds: funds.len(), json });
            return Ok(None);
        }
        for module in self.tf_modules.clone() {
            if let Some(kind) = url.strip_prefix(module.as_str()) {
                return self.handle_tf(&module, kind, &m, eff);
            }
        }
        Err(format!("unknown type url {url}"))
    }

    fn handle_tf(&mut self, module: &str, kind: &str, m: &pb::Msg, eff: &mut Vec<Effect>) -> Result<Option<Binary>, String> {
        let sender = m.string(1).ok_or("bad sender")?;
        if sender != self.contract {
            return Err(format!("signer {sender} is not the executing contract"));
        }
        let miniwasm = module == MINIWASM_TF;
        match kind {
            "MsgCreateDenom" => {
                let sub = m.string(2).ok_or("bad subdenom")?;
                let denom = format!("factory/{sender}/{sub}");
                if sub.is_empty() || self.w.denom_admin.contains_key(&denom) {
                    return Err("denom exists or empty".into());
                }
                self.w.denom_admin.insert(denom.clone(), sender.clone());
                self.w.supply.insert(denom.clone(), 0);
                eff.push(Effect::CreateDenom {
                    module: module.into(),
                    sender,
                    subdenom: sub,
                    denom,
                    canonical: m.canonical(&[1, 2], &[]),
                });
                Ok(None)
            }
            "MsgMint" => {
                let c = pb::coin(&m.sub(2).ok_or("bad coin")?.ok_or("no coin")?).ok_or("bad coin")?;
                let to = m.string(3).ok_or("bad mint_to")?;
                let to = if to.is_empty() { sender.clone() } else { to };
                let amt: u128 = c.amount.parse().map_err(|_| "bad amount")?;
                if self.w.denom_admin.get(&c.denom) != Some(&sender) {
                    return Err("not the denom admin".into());
                }
                // lenient on zero (like the bank): the contract's own zero-mint guard is what C04 is about
                *self.w.supply.get_mut(&c.denom).unwrap() += amt;
                credit(&mut self.w.bank, &to, &c.denom, amt);
                eff.push(Effect::Mint {
                    module: module.into(),
                    sender,
                    denom: c.denom,
                    amount: amt,
                    to,
                    canonical: m.canonical(&[1, 2, 3], &[]),
                });
                Ok(None)
            }
            "MsgBurn" => {
                let c = pb::coin(&m.sub(2).ok_or("bad coin")?.ok_or("no coin")?).ok_or("bad coin")?;
                let from = if miniwasm { String::new() } else { m.string(3).ok_or("bad burn_from")? };
                let from = if from.is_empty() { sender.clone() } else { from };
                let amt: u128 = c.amount.parse().map_err(|_| "bad amount")?;
                if self.w.denom_admin.get(&c.denom) != Some(&sender) {
                    return Err("not the denom admin".into());
                }
                // lenient on zero, like mint and bank sends
                debit(&mut self.w.bank, &from, &c.denom, amt)?;
                *self.w.supply.get_mut(&c.denom).unwrap() -= amt;
                let allowed: &[u32] = if miniwasm { &[1, 2] } else { &[1, 2, 3] };
                eff.push(Effect::Burn {
                    module: module.into(),
                    sender,
                    denom: c.denom,
                    amount: amt,
                    from,
                    canonical: m.canonical(allowed, &[]),
                });
                Ok(None)
            }
            _ => Err(format!("unknown token factory message {kind}")),
        }
    }

    fn handle_transfer(&mut self, m: &pb::Msg, eff: &mut Vec<Effect>) -> Result<Option<Binary>, String> {
        let port = m.string(1).ok_or("bad port")?;
        let channel = m.string(2).ok_or("bad channel")?;
        let c = pb::coin(&m.sub(3).ok_or("bad token")?.ok_or("no token")?).ok_or("bad token")?;
        let sender = m.string(4).ok_or("bad sender")?;
        let receiver = m.string(5).ok_or("bad receiver")?;
        let th = m.sub(6).ok_or("bad height")?;
        let timeout_ns = m.uint(7).ok_or("bad timeout")?;
        let memo = m.string(8).ok_or("bad memo")?;
        if sender != self.contract {
            return Err(format!("signer {sender} is not the executing contract"));
        }
        let n = self.transfers_seen_in_tx;
        self.transfers_seen_in_tx += 1;
        if self.fail_transfer == Some(n) {
            return Err("injected: transfer submission failed".into());
        }
        if port != "transfer" || channel != self.channel {
            return Err(format!("channel {port}/{channel} not found"));
        }
        let height_set = th.map(|h| h.uint(1).unwrap_or(0) != 0 || h.uint(2).unwrap_or(0) != 0).unwrap_or(false);
        if !height_set && timeout_ns == 0 {
            return Err("no timeout set".into());
        }
        if timeout_ns != 0 && timeout_ns <= self.time_ns {
            return Err("timeout in the past".into());
        }
        if receiver.is_empty() {
            return Err("empty receiver".into());
        }
        let amt: u128 = c.amount.parse().map_err(|_| "bad amount")?;
        if amt == 0 {
            return Err("zero transfer".into());
        }
        debit(&mut self.w.bank, &sender, &c.denom, amt)?;
        let seq = self.w.next_seq;
        self.w.next_seq += 1;
        self.w.packets.insert(
            seq,
            Packet {
                seq,
                channel: channel.clone(),
                sender,
                receiver: receiver.clone(),
                denom: c.denom.clone(),
                amount: amt,
                memo: memo.clone(),
                timeout_ns,
                state: PacketState::InFlight,
            },
        );
        eff.push(Effect::Transfer { seq, channel, receiver, denom: c.denom, amount: amt, memo, timeout_ns });
        let mut data = vec![];
        pb::put_uint(&mut data, 1, seq);
        Ok(Some(Binary::from(data)))
    }

    // ------------------------------------------------------------ IBC events

    /// Other senders use the same channel: sequence numbers are shared.
    pub fn background_traffic(&mut self, n: u64) {
        self.w.next_seq += n;
    }

    /// Resolve an in-flight packet.  The refund (or remote credit) happens first, then the
    /// ibc-hooks callback named in the packet memo is invoked.  Returns the callback outcome,
    /// or None when the packet was not in flight / named no callback for this contract.
    pub fn resolve_packet(&mut self, seq: u64, outcome: IbcOutcome, remote_denom: &str) -> Option<TxOutcome> {
        let p = self.w.packets.get(&seq)?.clone();
        if p.state != PacketState::InFlight {
            return None;
        }
        match outcome {
            IbcOutcome::Ack => {
                credit(&mut self.w.native, &p.receiver, remote_denom, p.amount);
                self.w.packets.get_mut(&seq).unwrap().state = PacketState::Delivered;
            }
            IbcOutcome::ErrAck => {
                credit(&mut self.w.bank, &p.sender, &p.denom, p.amount);
                self.w.packets.get_mut(&seq).unwrap().state = PacketState::FailedAck;
            }
            IbcOutcome::Timeout => {
                credit(&mut self.w.bank, &p.sender, &p.denom, p.amount);
                self.w.packets.get_mut(&seq).unwrap().state = PacketState::TimedOut;
            }
        }
        let cb: Option<String> = serde_json::from_str::<serde_json::Value>(&p.memo)
            .ok()
            .and_then(|v| v.get("ibc_callback").and_then(|c| c.as_str().map(|s| s.to_string())));
        if cb.as_deref() != Some(self.contract.as_str()) {
            return None;
        }
        let msg = match outcome {
            IbcOutcome::Ack => SudoMsg::IBCLifecycleComplete(IBCLifecycleComplete::IBCAck {
                channel: p.channel.clone(),
                sequence: seq,
                ack: "{\"result\":\"AQ==\"}".into(),
                success: true,
            }),
            IbcOutcome::ErrAck => SudoMsg::IBCLifecycleComplete(IBCLifecycleComplete::IBCAck {
                channel: p.channel.clone(),
                sequence: seq,
                ack: "{\"error\":\"failed\"}".into(),
                success: false,
            }),
            IbcOutcome::Timeout => {
                SudoMsg::IBCLifecycleComplete(IBCLifecycleComplete::IBCTimeout { channel: p.channel.clone(), sequence: seq })
            }
        };
        Some(self.sudo(msg))
    }

    /// Inbound ibc-hooks: `native_sender` on the native chain sends `amount` of `denom_here`
    /// (the voucher denom on this chain) over `channel` with a wasm memo executing `msg`.
    /// The intermediate sender is derived by the harness's own implementation under the chain's
    /// real prefix.  On failure everything is reverted (error ack => refund on the native chain).
    pub fn hooks_execute(
        &mut self,
        channel: &str,
        native_sender: &str,
        denom_here: &str,
        amount: u128,
        msg: ExecuteMsg,
    ) -> (String, TxOutcome) {
        let inter = crypto::hooks_sender(channel, native_sender, &self.prefix);
        let inter2 = inter.clone();
        self.last_tx = Some(RecordedTx {
            sender: inter.clone(),
            funds: vec![Coin::new(amount, denom_here)],
            msg: msg.clone(),
            hook: Some((channel.to_string(), native_sender.to_string(), denom_here.to_string(), amount)),
            time_ns: self.time_ns,
        });
        let coin = Coin::new(amount, denom_here);
        let out = self.run_tx(|ch, eff| {
            credit(&mut ch.w.bank, &inter2, denom_here, amount);
            ch.execute_inner(&inter2, &[coin], msg, eff)
        });
        (inter, out)
    }
}

impl SimApi {
    pub fn addr_validate_str(&self, s: &str) -> Result<(), String> {
        use cosmwasm_std::Api;
        self.addr_validate(s).map(|_| ()).map_err(|e| format!("invalid recipient {s}: {e}"))
    }
}
