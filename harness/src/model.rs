//! Reference model: an independent, deliberately naive restatement of the protocol as the
//! properties describe it.  It never reads contract storage; it is updated from op parameters and
//! from what the simulator's ledgers observed.

use std::collections::BTreeMap;

#[derive(Clone, Copy, Debug, PartialEq, Eq)]
pub enum BStatus {
    Pending,
    Submitted,
    Received,
}

impl BStatus {
    pub fn as_str(&self) -> &'static str {
        match self {
            BStatus::Pending => "pending",
            BStatus::Submitted => "submitted",
            BStatus::Received => "received",
        }
    }
    pub fn rank(&self) -> u8 {
        match self {
            BStatus::Pending => 0,
            BStatus::Submitted => 1,
            BStatus::Received => 2,
        }
    }
}

#[derive(Clone, Debug, PartialEq, Eq)]
pub struct MBatch {
    pub id: u64,
    pub total: u128,
    pub status: BStatus,
    pub due: Option<u64>,
    pub expected: Option<u128>,
    pub received: Option<u128>,
    pub reqs: BTreeMap<String, u128>,
    pub paid: u128,
    /// requests already withdrawn (the stored count is never decremented)
    pub withdrawn: u64,
    /// time of submission (for the unbonding-period rule)
    pub submitted_at: Option<u64>,
}

#[derive(Clone, Copy, Debug, PartialEq, Eq)]
pub enum PStatus {
    Sent,
    AckFailure,
    TimedOut,
}

#[derive(Clone, Debug, PartialEq, Eq)]
pub struct MPacket {
    pub seq: u64,
    pub receiver: String,
    pub denom: String,
    pub amount: u128,
    pub status: PStatus,
}

#[derive(Clone, Debug, PartialEq, Eq)]
pub struct MCfg {
    pub fee_rate: u128,
    pub treasury: Option<String>,
    pub oracle: Option<String>,
    pub min_stake: u128,
    pub batch_period: u64,
    pub unbonding: u64,
    pub monitors: Vec<String>,
    pub validators: Vec<String>,
    pub staker: String,
    pub collector: String,
    pub channel: String,
    pub staked_denom: String,
    pub lst_denom: String,
    pub pprefix: String,
    pub nprefix: String,
    pub vprefix: String,
    pub native_token_denom: String,
}

#[derive(Clone, Debug, PartialEq, Eq)]
pub struct Model {
    pub n: u128,
    pub l: u128,
    pub fees: u128,
    pub rewards: u128,
    /// token-factory supply minus `l` (non-zero only after an admin re-basing resume)
    pub supply_offset: i128,
    pub halted: bool,
    pub admin: String,
    pub former_admin: Option<String>,
    pub nominee: Option<String>,
    /// the nominee replaced by the latest nomination or revocation (must have lost the right to accept)
    pub superseded: Option<String>,
    pub earliest: Option<u64>,
    pub batches: BTreeMap<u64, MBatch>,
    pub pending: u64,
    /// transfers the contract must still be tracking (not yet successfully acknowledged)
    pub packets: BTreeMap<u64, MPacket>,
    pub cfg: MCfg,
    // ---- C01 bookkeeping, all from ledger observations
    /// F: staked-asset amounts forwarded toward the staker by stakes and net rewards
    pub forwarded: u128,
    /// E: sum of expected amounts of all batches submitted so far
    pub set_aside: u128,
    /// S: ownerless stake swept to fees
    pub swept: u128,
    /// R: re-basing offset introduced by admin resumes (total = F - E - S + R)
    pub rebase: i128,
    /// sum of `expected` of batches already paid back by the operator
    pub paid_back_expected: u128,
    /// a sweep happened: `fees` contains tokens the contract does not hold
    pub fees_unbacked: bool,
}

impl MBatch {
    pub fn withdrawn_count(&self) -> u64 {
        self.withdrawn
    }
}

impl Model {
    pub fn refundable<'a>(&'a self) -> impl Iterator<Item = &'a MPacket> {
        self.packets.values().filter(|p| p.status != PStatus::Sent)
    }
    pub fn refundable_sum(&self, denom: &str) -> u128 {
        self.refundable().filter(|p| p.denom == denom).map(|p| p.amount).sum()
    }
    pub fn received_unpaid(&self) -> u128 {
        self.batches
            .values()
            .filter(|b| b.status == BStatus::Received)
            .map(|b| b.received.unwrap_or(0) - b.paid)
            .sum()
    }
    pub fn outstanding_expected(&self) -> u128 {
        self.batches.values().filter(|b| b.status == BStatus::Submitted).map(|b| b.expected.unwrap_or(0)).sum()
    }
}
