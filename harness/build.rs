// Exposes the crate versions of /repo's current tree (the migrations must record exactly these).
use std::fs;
fn version_of(manifest: &str, section: &str) -> Option<String> {
    let s = fs::read_to_string(manifest).ok()?;
    let mut in_section = false;
    for line in s.lines() {
        let t = line.trim();
        if t.starts_with('[') {
            in_section = t == section;
            continue;
        }
        if in_section && t.starts_with("version") {
            let q: Vec<&str> = t.split('"').collect();
            if q.len() >= 2 {
                return Some(q[1].to_string());
            }
            return None;
        }
    }
    None
}
fn main() {
    println!("cargo:rerun-if-changed=/repo/contracts/staking/Cargo.toml");
    println!("cargo:rerun-if-changed=/repo/contracts/treasury/Cargo.toml");
    println!("cargo:rerun-if-changed=/repo/Cargo.toml");
    let ws = version_of("/repo/Cargo.toml", "[workspace.package]").unwrap_or_default();
    let st = version_of("/repo/contracts/staking/Cargo.toml", "[package]").unwrap_or(ws.clone());
    let tr = version_of("/repo/contracts/treasury/Cargo.toml", "[package]").unwrap_or(ws.clone());
    println!("cargo:rustc-env=STAKING_VERSION={st}");
    println!("cargo:rustc-env=TREASURY_VERSION={tr}");
}
