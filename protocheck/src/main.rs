//! C20: the prost bindings of /repo/packages/initia-proto against (1) the pinned baseline schema,
//! (2) osmosis-std's independently generated bindings, (3) an independent schema-driven encoder.
//!
//!   protocheck <quick|thorough> <current schema.json>
//!
//! The dispatch table `gen/dispatch.rs` is generated from the *current* tree by
//! tools/extract_schema.py before every build, so every message type of the package is
//! instantiated (enumerated, not sampled).

use harness::pb::{put_key, put_len, put_varint};
use harness::runner::*;
use initia_proto::traits::{MessageExt, TypeUrl};
use prost::Message;
use proptest::prelude::*;
use serde::{Deserialize, Serialize};
use serde_json::Value;
use std::collections::BTreeMap;
use std::fmt::Debug;

mod gen {
    include!("gen/dispatch.rs");
}
mod osmosis_dispatch;

pub struct Rt {
    pub reencoded: Vec<u8>,
    pub debug: String,
    pub stable: bool,
}

type RtFn = fn(&[u8]) -> Result<Rt, String>;
type UrlFn = fn(&[u8], &str) -> Result<(), String>;

#[derive(Default)]
pub struct Registry {
    pub real: BTreeMap<String, RtFn>,
    pub other: BTreeMap<String, RtFn>,
    pub urls: BTreeMap<String, (&'static str, UrlFn)>,
}

fn rt<M: Message + Default + PartialEq + Debug>(b: &[u8]) -> Result<Rt, String> {
    let v = M::decode(b).map_err(|e| format!("decode failed: {e}"))?;
    let reencoded = v.encode_to_vec();
    let v2 = M::decode(reencoded.as_slice()).map_err(|e| format!("decode of own encoding failed: {e}"))?;
    Ok(Rt { debug: format!("{:?}", v), stable: v == v2, reencoded })
}

fn url_check<M: Message + Default + PartialEq + Debug + TypeUrl>(b: &[u8], wrong: &str) -> Result<(), String> {
    let v = M::decode(b).map_err(|e| format!("decode failed: {e}"))?;
    let any = v.to_any().map_err(|e| format!("to_any failed: {e}"))?;
    if any.type_url != M::TYPE_URL {
        return Err(format!("to_any packs type url {:?}, registered {:?}", any.type_url, M::TYPE_URL));
    }
    if any.value != v.encode_to_vec() {
        return Err("to_any value differs from the message encoding".into());
    }
    let back = M::from_any(&any).map_err(|e| format!("from_any(to_any(v)) failed: {e}"))?;
    if back != v {
        return Err("from_any(to_any(v)) != v".into());
    }
    let mut bad = any.clone();
    bad.type_url = wrong.to_string();
    if wrong != M::TYPE_URL && M::from_any(&bad).is_ok() {
        return Err(format!("from_any accepted the mismatched type url {wrong:?} for {}", M::TYPE_URL));
    }
    Ok(())
}

impl Registry {
    pub fn add<M: Message + Default + PartialEq + Debug>(&mut self, path: &str) {
        self.real.insert(path.to_string(), rt::<M>);
    }
    pub fn add_other<M: Message + Default + PartialEq + Debug>(&mut self, path: &str) {
        self.other.insert(path.to_string(), rt::<M>);
    }
    pub fn add_url<M: Message + Default + PartialEq + Debug + TypeUrl>(&mut self, path: &str) {
        self.urls.insert(path.to_string(), (M::TYPE_URL, url_check::<M>));
    }
}

/// Autoref specialisation: `(&&Wrap::<T>(..)).reg_url(r, path)` registers the URL check when
/// `T: TypeUrl` and does nothing otherwise (resolved by the compiler at each concrete type).
pub struct Wrap<T>(pub std::marker::PhantomData<T>);
pub trait ViaUrl {
    fn reg_url(&self, r: &mut Registry, path: &str);
}
impl<T: Message + Default + PartialEq + Debug + TypeUrl> ViaUrl for &Wrap<T> {
    fn reg_url(&self, r: &mut Registry, path: &str) {
        r.add_url::<T>(path);
    }
}
pub trait ViaNone {
    fn reg_url(&self, r: &mut Registry, path: &str);
}
impl<T> ViaNone for Wrap<T> {
    fn reg_url(&self, _r: &mut Registry, _path: &str) {}
}

// ------------------------------------------------------------------ schema

#[derive(Deserialize, Clone, Debug)]
pub struct Field {
    pub name: String,
    pub attr: String,
    pub kind: Option<String>,
    pub label: Option<String>,
    pub tags: Vec<u32>,
    #[serde(default)]
    pub rust_type: String,
    pub message: Option<String>,
    pub target_path: Option<String>,
    pub map_key: Option<String>,
    pub map_value: Option<String>,
    pub packed: Option<String>,
}

#[derive(Deserialize, Clone, Debug)]
pub struct Item {
    pub item: String,
    pub path: String,
    pub name: String,
    #[serde(default)]
    pub fq: String,
    #[serde(default)]
    pub fields: Vec<Field>,
    #[serde(default)]
    pub variants: Vec<Field>,
    #[serde(default)]
    pub values: Vec<(String, i64)>,
}

#[derive(Deserialize, Clone, Debug)]
pub struct UrlEntry {
    pub path: String,
    pub url: String,
}

#[derive(Deserialize, Clone, Debug)]
pub struct Schema {
    pub items: BTreeMap<String, Item>,
    #[serde(default)]
    pub type_urls: Vec<UrlEntry>,
}

#[derive(Deserialize, Clone, Debug)]
pub struct Shared {
    pub fq: String,
    pub identical_fields: bool,
    pub type_url: Option<String>,
}

// ------------------------------------------------------------------ schema-driven generator (independent encoder)

pub struct Ent<'a> {
    words: &'a [u64],
    pos: usize,
}
impl<'a> Ent<'a> {
    fn next(&mut self) -> u64 {
        let v = self.words.get(self.pos).copied().unwrap_or(0);
        self.pos += 1;
        v
    }
}

const KEYWORDS: [&str; 8] = ["type", "move", "mod", "fn", "use", "match", "ref", "self"];

fn interesting_u64(w: u64) -> u64 {
    match w % 9 {
        0 => 1,
        1 => 127,
        2 => 128,
        3 => u32::MAX as u64,
        4 => (1u64 << 63) - 1,
        5 => 1u64 << 63,
        6 => u64::MAX,
        7 => 300,
        _ => (w >> 4) | 1,
    }
}

fn ascii(w: u64, full: bool) -> String {
    let n = if full { 1 + (w % 12) as usize } else { (w % 13) as usize };
    (0..n).map(|i| (b'a' + ((w >> (i * 4)) % 26) as u8) as char).collect()
}

pub struct Gen<'a> {
    pub schema: &'a Schema,
    /// expectations on the Debug rendering of top-level scalar fields: (field name, rendered value)
    pub expect: Vec<(String, String)>,
    pub fields_set: usize,
    pub fields_total: usize,
    pub unsupported: Option<String>,
}

impl<'a> Gen<'a> {
    fn scalar(&mut self, kind: &str, w: u64, full: bool, out: &mut Vec<u8>, tag: u32, always: bool, top: Option<&str>) -> bool {
        // returns whether something was emitted
        let note = |g: &mut Gen, s: String| {
            if let Some(n) = top {
                if !KEYWORDS.contains(&n) {
                    g.expect.push((n.to_string(), s));
                }
            }
        };
        match kind {
            "uint64" | "uint32" | "int64" | "int32" | "sint32" | "sint64" | "bool" | "enumeration" => {
                let mut v = if full || w % 4 != 0 { interesting_u64(w >> 2) } else { 0 };
                let render;
                match kind {
                    "uint64" => render = format!("{v}"),
                    "uint32" => {
                        v &= u32::MAX as u64;
                        if full && v == 0 {
                            v = 7;
                        }
                        render = format!("{v}");
                    }
                    "int64" => render = format!("{}", v as i64),
                    "int32" => {
                        let x = v as i32;
                        let x = if full && x == 0 { -5 } else { x };
                        v = x as i64 as u64;
                        render = format!("{x}");
                    }
                    "sint64" => {
                        let x = v as i64;
                        render = format!("{x}");
                        v = ((x << 1) ^ (x >> 63)) as u64;
                    }
                    "sint32" => {
                        let x = v as i32;
                        render = format!("{x}");
                        v = (((x << 1) ^ (x >> 31)) as u32) as u64;
                    }
                    "bool" => {
                        v = (v != 0) as u64;
                        render = format!("{}", v == 1);
                    }
                    _ => {
                        // enumeration: i32 on the wire; prost keeps unknown values
                        v = (v % 5) as i32 as i64 as u64;
                        if full && v == 0 {
                            v = 1;
                        }
                        render = String::new();
                    }
                }
                if v == 0 && !always {
                    return false;
                }
                put_key(out, tag, 0);
                put_varint(out, v);
                if !render.is_empty() {
                    note(self, render);
                }
                true
            }
            "fixed64" | "sfixed64" | "double" => {
                let v = if full || w % 4 != 0 { interesting_u64(w >> 2) & 0x7fef_ffff_ffff_ffff } else { 0 };
                if v == 0 && !always {
                    return false;
                }
                put_key(out, tag, 1);
                out.extend(v.to_le_bytes());
                true
            }
            "fixed32" | "sfixed32" | "float" => {
                let v = if full || w % 4 != 0 { (interesting_u64(w >> 2) as u32) & 0x7f7f_ffff } else { 0 };
                if v == 0 && !always {
                    return false;
                }
                put_key(out, tag, 5);
                out.extend(v.to_le_bytes());
                true
            }
            "string" => {
                let s = ascii(w, full);
                if s.is_empty() && !always {
                    return false;
                }
                put_len(out, tag, s.as_bytes());
                note(self, format!("{:?}", s));
                true
            }
            "bytes" => {
                let n = if full { 1 + (w % 9) as usize } else { (w % 10) as usize };
                let b: Vec<u8> = (0..n).map(|i| (w >> (i * 5)) as u8).collect();
                if b.is_empty() && !always {
                    return false;
                }
                put_len(out, tag, &b);
                true
            }
            other => {
                self.unsupported = Some(format!("scalar kind {other}"));
                false
            }
        }
    }

    fn external(&mut self, path: &str, e: &mut Ent, full: bool) -> Option<Vec<u8>> {
        let mut out = vec![];
        match path {
            "prost_types::Any" => {
                self.scalar("string", e.next(), full, &mut out, 1, false, None);
                self.scalar("bytes", e.next(), full, &mut out, 2, false, None);
            }
            "prost_types::Timestamp" | "prost_types::Duration" => {
                self.scalar("int64", e.next(), full, &mut out, 1, false, None);
                self.scalar("int32", e.next(), full, &mut out, 2, false, None);
            }
            _ => return None,
        }
        Some(out)
    }

    pub fn message(&mut self, path: &str, e: &mut Ent, depth: u32, full: bool) -> Vec<u8> {
        let it = match self.schema.items.get(path) {
            Some(i) => i.clone(),
            None => return self.external(path, e, full).unwrap_or_default(),
        };
        let mut fields: Vec<&Field> = it.fields.iter().collect();
        fields.sort_by_key(|f| f.tags.iter().min().copied().unwrap_or(0));
        let mut out = vec![];
        let top = depth == 0;
        for f in fields {
            let w = e.next();
            let kind = f.kind.clone().unwrap_or_default();
            let tag = f.tags.first().copied().unwrap_or(0);
            let label = f.label.as_deref();
            if top {
                self.fields_total += 1;
            }
            let before = out.len();
            let deep = depth >= 3;
            match (kind.as_str(), label) {
                ("message", lab) => {
                    let target = f.message.clone().unwrap_or_default();
                    let known = self.schema.items.contains_key(&target) || target.starts_with("prost_types::A") || target.starts_with("prost_types::T") || target.starts_with("prost_types::D");
                    let count = match lab {
                        Some("repeated") => {
                            if !known || deep {
                                0
                            } else if full {
                                1 + (w % 3) as usize
                            } else {
                                (w % 4) as usize
                            }
                        }
                        Some("optional") => (known && !deep && (full || w % 3 != 0)) as usize,
                        _ => 1, // required: always on the wire
                    };
                    for _ in 0..count {
                        let body = if known && !deep { self.message(&target, e, depth + 1, full && depth < 1) } else { vec![] };
                        put_len(&mut out, tag, &body);
                    }
                }
                ("oneof", _) => {
                    let target = f.target_path.clone().unwrap_or_default();
                    if let Some(one) = self.schema.items.get(&target).cloned() {
                        if !one.variants.is_empty() && (full || w % 4 != 0) {
                            let v = &one.variants[(w as usize >> 2) % one.variants.len()];
                            let vk = v.kind.clone().unwrap_or_default();
                            let vt = v.tags[0];
                            if vk == "message" {
                                let target = v.message.clone().unwrap_or_default();
                                let known = self.schema.items.contains_key(&target) || target.starts_with("prost_types::");
                                let body = if known && !deep { self.message(&target, e, depth + 1, false) } else { vec![] };
                                put_len(&mut out, vt, &body);
                            } else {
                                self.scalar(&vk, e.next(), full, &mut out, vt, true, None);
                            }
                        }
                    } else {
                        self.unsupported = Some(format!("oneof {target} missing from schema"));
                    }
                }
                ("map", _) => {
                    // at most one entry so that the encoding is unique (HashMap order)
                    if full || w % 3 == 0 {
                        let mut entry = vec![];
                        let mk = f.map_key.clone().unwrap_or_default();
                        let mv = f.map_value.clone().unwrap_or_default();
                        self.scalar(&mk, e.next() | 5, true, &mut entry, 1, false, None);
                        if mv == "message" {
                            let target = f.message.clone().unwrap_or_default();
                            let body = if deep { vec![] } else { self.message(&target, e, depth + 2, false) };
                            // prost omits a map value equal to the default message
                            if !body.is_empty() {
                                put_len(&mut entry, 2, &body);
                            }
                        } else if mv.starts_with("enumeration") {
                            self.scalar("enumeration", e.next(), false, &mut entry, 2, false, None);
                        } else {
                            self.scalar(&mv, e.next(), false, &mut entry, 2, false, None);
                        }
                        put_len(&mut out, tag, &entry);
                    }
                }
                (k, Some("repeated")) => {
                    let n = if full { 1 + (w % 3) as usize } else { (w % 4) as usize };
                    let packable = !matches!(k, "string" | "bytes");
                    if packable && f.packed.as_deref() != Some("false") {
                        let mut block = vec![];
                        for _ in 0..n {
                            let mut one = vec![];
                            self.scalar(k, e.next(), full, &mut one, 1, true, None);
                            // strip the key byte (tag 1 => single byte)
                            block.extend(&one[1..]);
                        }
                        if !block.is_empty() {
                            put_len(&mut out, tag, &block);
                        }
                    } else {
                        for _ in 0..n {
                            self.scalar(k, e.next(), full, &mut out, tag, true, None);
                        }
                    }
                }
                (k, Some("optional")) => {
                    if full || w % 2 == 0 {
                        self.scalar(k, e.next(), full, &mut out, tag, true, None);
                    }
                }
                (k, _) => {
                    // singular scalars of nested messages render the same way (`name: value`), so they are
                    // expected in the Debug output as well
                    let name = f.name.clone();
                    let _ = top;
                    self.scalar(k, w, full, &mut out, tag, false, Some(name.as_str()));
                }
            }
            if top && out.len() > before {
                self.fields_set += 1;
            }
        }
        out
    }
}

/// top-level fields of an encoded message in reverse tag order (same-tag runs keep their order),
/// with an unknown field appended: a non-canonical encoding of the same value.
fn scramble(b: &[u8]) -> Option<Vec<u8>> {
    let fields = harness::pb::parse(b)?;
    let mut groups: Vec<(u32, Vec<&harness::pb::Field>)> = vec![];
    for f in &fields {
        match groups.last_mut() {
            Some((no, g)) if *no == f.no => g.push(f),
            _ => groups.push((f.no, vec![f])),
        }
    }
    // merging runs of the same tag separated by other tags would change repeated-field order: keep runs
    let mut seen = std::collections::BTreeSet::new();
    for (no, _) in &groups {
        if !seen.insert(*no) {
            return None;
        }
    }
    groups.reverse();
    let mut out = vec![];
    for (_, g) in groups {
        for f in g {
            match &f.val {
                harness::pb::Wire::Varint(v) => {
                    put_key(&mut out, f.no, 0);
                    put_varint(&mut out, *v);
                }
                harness::pb::Wire::I64(v) => {
                    put_key(&mut out, f.no, 1);
                    out.extend(v.to_le_bytes());
                }
                harness::pb::Wire::Len(v) => put_len(&mut out, f.no, v),
                harness::pb::Wire::I32(v) => {
                    put_key(&mut out, f.no, 5);
                    out.extend(v.to_le_bytes());
                }
            }
        }
    }
    put_key(&mut out, 19_999, 0);
    put_varint(&mut out, 42);
    Some(out)
}

#[derive(Clone, Debug, Serialize, Deserialize)]
pub struct ProtoCase {
    /// index into the sorted list of baseline message types
    pub ty: usize,
    pub full: bool,
    pub words: Vec<u64>,
}

pub struct Ctx {
    pub baseline: Schema,
    pub types: Vec<String>,
    pub reg: Registry,
    pub shared: BTreeMap<String, Shared>,
    pub deep_identical: BTreeMap<String, bool>,
}

fn deep_identical(path: &str, schema: &Schema, shared: &BTreeMap<String, Shared>, memo: &mut BTreeMap<String, bool>, stack: &mut Vec<String>) -> bool {
    if let Some(v) = memo.get(path) {
        return *v;
    }
    if path.starts_with("prost_types::") {
        return true;
    }
    if stack.iter().any(|s| s == path) {
        return true; // cycle: decided by the other members
    }
    let ok = match (schema.items.get(path), shared.get(path)) {
        (Some(it), Some(sh)) if sh.identical_fields => {
            stack.push(path.to_string());
            let mut ok = true;
            for f in &it.fields {
                if let Some(m) = &f.message {
                    ok &= deep_identical(m, schema, shared, memo, stack);
                }
                if f.kind.as_deref() == Some("enumeration") || f.map_value.as_deref().map(|v| v.starts_with("enumeration")).unwrap_or(false) {
                    // variant names appear in the Debug rendering: the enum must be defined identically
                    ok &= f.target_path.as_ref().and_then(|t| shared.get(t)).map(|s| s.identical_fields).unwrap_or(false);
                }
                if f.kind.as_deref() == Some("oneof") {
                    if let Some(one) = f.target_path.as_ref().and_then(|t| schema.items.get(t)) {
                        for v in &one.variants {
                            if let Some(m) = &v.message {
                                ok &= deep_identical(m, schema, shared, memo, stack);
                            }
                            if v.kind.as_deref() == Some("enumeration") {
                                ok &= v.target_path.as_ref().and_then(|t| shared.get(t)).map(|s| s.identical_fields).unwrap_or(false);
                            }
                        }
                    }
                }
            }
            stack.pop();
            ok
        }
        _ => false,
    };
    memo.insert(path.to_string(), ok);
    ok
}

fn hex(b: &[u8]) -> String {
    b.iter().map(|x| format!("{:02x}", x)).collect()
}

pub fn check_case(ctx: &Ctx, c: &ProtoCase, agg: &mut Agg) -> Result<(), String> {
    let path = &ctx.types[c.ty % ctx.types.len()];
    let mut g = Gen { schema: &ctx.baseline, expect: vec![], fields_set: 0, fields_total: 0, unsupported: None };
    let mut e = Ent { words: &c.words, pos: 0 };
    let bytes = g.message(path, &mut e, 0, c.full);
    if let Some(u) = g.unsupported {
        *agg.counters.entry(format!("unsupported: {u}")).or_insert(0) += 1;
        return Ok(());
    }
    let real = match ctx.reg.real.get(path) {
        Some(f) => f,
        None => return Err(format!("message type {path} of the pinned schema no longer exists in the bindings")),
    };
    let what = format!("{path} (full={}) bytes {}", c.full, hex(&bytes));
    let r = real(&bytes).map_err(|e| format!("{what}: {e}"))?;
    if r.reencoded != bytes {
        return Err(format!("{what}: decode-then-encode gives {} — a field number, wire type or cardinality differs from the pinned definition\n  decoded as {}", hex(&r.reencoded), r.debug));
    }
    if !r.stable {
        return Err(format!("{what}: decode(encode(v)) != v"));
    }
    for (name, val) in &g.expect {
        let needle = format!("{name}: {val}");
        if !r.debug.contains(&needle) {
            return Err(format!("{what}: field {name} was encoded as {val} (pinned scalar type) but the binding decoded {}", r.debug));
        }
    }
    if let Some(s) = scramble(&bytes) {
        let r2 = real(&s).map_err(|e| format!("{what}: non-canonical encoding {} rejected: {e}", hex(&s)))?;
        if r2.reencoded != bytes {
            return Err(format!("{what}: reordered encoding with an unknown field re-encodes to {}", hex(&r2.reencoded)));
        }
        *agg.counters.entry("noncanonical_encodings_checked".into()).or_insert(0) += 1;
    }
    if let (Some(sh), Some(of)) = (ctx.shared.get(path), ctx.reg.other.get(path)) {
        // comparable only when every reachable message type has the same definition in both libraries
        let deep = ctx.deep_identical.get(path).copied().unwrap_or(false);
        if sh.identical_fields && deep {
            let o = of(&bytes).map_err(|e| format!("{what}: osmosis-std binding: {e}"))?;
            if o.reencoded != r.reencoded || o.debug != r.debug {
                return Err(format!("{what}: differs from the independently generated osmosis-std binding\n  here     {} {}\n  osmosis  {} {}", hex(&r.reencoded), r.debug, hex(&o.reencoded), o.debug));
            }
            *agg.counters.entry("differential_vs_osmosis_std".into()).or_insert(0) += 1;
        } else {
            *agg.counters.entry("shared_but_version_skewed_skipped".into()).or_insert(0) += 1;
        }
    }
    if let Some((_, uf)) = ctx.reg.urls.get(path) {
        let wrong = match c.words.first().copied().unwrap_or(0) % 3 {
            0 => format!("{}x", ctx.reg.urls[path].0),
            1 => ctx.reg.urls.values().map(|v| v.0).find(|u| *u != ctx.reg.urls[path].0).unwrap_or("/x").to_string(),
            _ => ctx.reg.urls[path].0.trim_start_matches('/').to_string(),
        };
        uf(&bytes, &wrong).map_err(|e| format!("{what}: {e}"))?;
        *agg.counters.entry("any_roundtrips".into()).or_insert(0) += 1;
    }
    agg.evaluations += 1;
    if g.fields_total > 0 && g.fields_set == g.fields_total {
        let h = harness::crypto::sha256(format!("{path}{}", hex(&bytes)).as_bytes());
        agg.nontrivial.insert(u64::from_le_bytes(h[..8].try_into().unwrap()));
        *agg.counters.entry("cases_with_every_field_set".into()).or_insert(0) += 1;
    }
    Ok(())
}

fn field_sig(f: &Field) -> String {
    format!("{} [{}] {}", f.name, f.attr, f.rust_type)
}

/// Enumerated (not sampled) comparison of the current tree's schema with the pinned baseline,
/// and of every registered type URL with the canonical name.
fn enumerate_schema(ctx: &Ctx, current: &Schema, rep: &mut Report) {
    let mut compared = 0u64;
    let mut msgs: Vec<String> = vec![];
    for (path, b) in &ctx.baseline.items {
        let c = match current.items.get(path) {
            Some(c) => c,
            None => {
                msgs.push(format!("{} {path} of the pinned schema is missing from the bindings", b.item));
                continue;
            }
        };
        let (bf, cf) = if b.item == "oneof" { (&b.variants, &c.variants) } else { (&b.fields, &c.fields) };
        let bs: Vec<String> = bf.iter().map(field_sig).collect();
        let cs: Vec<String> = cf.iter().map(field_sig).collect();
        compared += bs.len() as u64;
        if bs != cs || b.values != c.values || b.fq != c.fq {
            let d: Vec<String> = bs.iter().filter(|x| !cs.contains(x)).cloned().collect();
            let d2: Vec<String> = cs.iter().filter(|x| !bs.contains(x)).cloned().collect();
            msgs.push(format!("{path}: definition differs from the pinned schema: pinned-only {:?}; current-only {:?}", d, d2));
        }
    }
    rep.agg.extra.insert("schema_fields_compared_with_baseline".into(), serde_json::json!(compared));
    rep.agg.extra.insert("message_types_in_current_tree".into(), serde_json::json!(current.items.values().filter(|i| i.item == "message").count()));
    rep.agg.extra.insert("message_types_without_baseline".into(), serde_json::json!(current.items.keys().filter(|k| !ctx.baseline.items.contains_key(*k)).collect::<Vec<_>>()));
    // type urls: "/" + fully-qualified protobuf name of the Rust type they are registered for
    let mut url_checked = 0;
    for (path, (url, _)) in &ctx.reg.urls {
        url_checked += 1;
        let fq = current.items.get(path).map(|i| i.fq.clone()).or_else(|| ctx.baseline.items.get(path).map(|i| i.fq.clone()));
        match fq {
            Some(fq) => {
                if *url != format!("/{fq}") {
                    msgs.push(format!("type URL registered for {path} is {url:?}; canonical is \"/{fq}\""));
                }
                if let Some(sh) = ctx.shared.get(path) {
                    if let Some(ou) = &sh.type_url {
                        if ou != url {
                            msgs.push(format!("type URL registered for {path} is {url:?}; osmosis-std declares {ou:?}"));
                        }
                    }
                }
            }
            None => msgs.push(format!("type URL {url:?} registered for {path}, which is not a message of the package")),
        }
    }
    rep.agg.extra.insert("type_urls_checked".into(), serde_json::json!(url_checked));
    for m in msgs.into_iter().take(6) {
        rep.failures.push(Failure { message: m, replay: serde_json::json!({"enumeration": true}) });
    }
}

fn load<T: serde::de::DeserializeOwned>(p: &str) -> T {
    let s = std::fs::read_to_string(p).unwrap_or_else(|e| {
        eprintln!("cannot read {p}: {e}");
        std::process::exit(2)
    });
    serde_json::from_str(&s).unwrap_or_else(|e| {
        eprintln!("cannot parse {p}: {e}");
        std::process::exit(2)
    })
}

fn main() {
    let args: Vec<String> = std::env::args().collect();
    if args.len() < 3 {
        eprintln!("usage: protocheck <quick|thorough|replay FILE> <current-schema.json>");
        std::process::exit(2);
    }
    let baseline: Schema = load(&format!("{VERIF}/baseline/initia_proto_schema.json"));
    let shared: BTreeMap<String, Shared> = load(&format!("{VERIF}/baseline/shared_with_osmosis_std.json"));
    let mut reg = Registry::default();
    gen::register(&mut reg);
    gen::register_urls(&mut reg);
    osmosis_dispatch::register(&mut reg);
    let types: Vec<String> = baseline.items.values().filter(|i| i.item == "message").map(|i| i.path.clone()).collect();
    let mut memo = BTreeMap::new();
    for t in &types {
        deep_identical(t, &baseline, &shared, &mut memo, &mut vec![]);
    }
    let ctx = Ctx { baseline, types, reg, shared, deep_identical: memo };
    if args[1] == "replay" {
        let v: Value = load(&args[2]);
        let case_v = v.get("case").cloned().unwrap_or(v);
        if case_v.get("enumeration").is_some() {
            let current: Schema = load(&args[3]);
            let mut rep = Report::new("C20", "quick", 0, "");
            enumerate_schema(&ctx, &current, &mut rep);
            if let Some(f) = rep.failures.first() {
                println!("{}", f.message);
                println!("VIOLATION property=C20 replay={}", args[2]);
                std::process::exit(1);
            }
            println!("replay passed: schema and type URLs agree with the pinned definitions");
            return;
        }
        let c: ProtoCase = serde_json::from_value(case_v).unwrap_or_else(|e| {
            eprintln!("bad replay file: {e}");
            std::process::exit(2)
        });
        let mut a = Agg::default();
        match check_case(&ctx, &c, &mut a) {
            Ok(()) => println!("replay passed: no violation of C20"),
            Err(m) => {
                println!("{m}");
                println!("VIOLATION property=C20 replay={}", args[2]);
                std::process::exit(1);
            }
        }
        return;
    }
    let thorough = args[1] == "thorough";
    let current: Schema = load(&args[2]);
    let seed = seed_from_env();
    let mut rep = Report::new(
        "C20",
        if thorough { "thorough" } else { "quick" },
        seed,
        "every message type of the package is instantiated through a dispatch table generated from the current tree (enumerated); per type, values are generated from the pinned schema by an independent encoder (all fields set / random subsets, repeated 0-3, packed scalars, oneof arms, single map entries, nesting depth <= 3, extreme varints) and checked: real decode succeeds, decode-then-encode reproduces the canonical bytes, decode(encode(v)) == v, top-level scalars render as the pinned type, a reordered encoding with an unknown field normalises to the same bytes, byte- and Debug-identical results in osmosis-std's bindings for shared types, Any round trip and rejection of a mismatched type URL; plus an enumerated comparison of every field attribute with the pinned schema and of every registered type URL with the canonical name. Non-trivial = a case in which every top-level field of the message is on the wire; distinct by (type, bytes) hash",
    );
    rep.assumptions = vec![
        "reference 1: schema pinned at the task's commit (/verif/baseline/initia_proto_schema.json), itself cross-checked against osmosis-std for the 687 shared types when created".into(),
        "reference 2: osmosis-std 0.25 bindings (independently generated) for 687 message types with identical field sets; 26 version-skewed shared types are skipped and counted".into(),
        "for Initia-, Celestia-, miniwasm-specific messages wire compatibility means 'unchanged from the pinned commit and self-consistent'".into(),
        "fields of tendermint-proto / FileDescriptorProto type are generated empty; map fields carry at most one entry (HashMap order)".into(),
    ];
    enumerate_schema(&ctx, &current, &mut rep);
    let ntypes = ctx.types.len();
    let per_type: u64 = if thorough { 3000 } else { 100 };
    let cases = ntypes as u64 * per_type;
    // enumerated pre-pass: every type once with every field set and once all-default
    let mut pre = Agg::default();
    for ty in 0..ntypes {
        for (full, w) in [(true, 0x9E37_79B9_7F4A_7C15u64.wrapping_mul(ty as u64 + seed)), (false, 0)] {
            let words: Vec<u64> = (0..48u64).map(|i| if w == 0 { 0 } else { w.rotate_left((i % 63) as u32) ^ i.wrapping_mul(0xD6E8_FEB8_6659_FD93) }).collect();
            let pc = ProtoCase { ty, full, words };
            if let Err(m) = check_case(&ctx, &pc, &mut pre) {
                rep.failures.push(Failure { message: m, replay: serde_json::to_value(&pc).unwrap() });
            }
        }
        if rep.failures.len() >= 4 {
            break;
        }
    }
    rep.agg.absorb(&pre);
    let out = drive(
        || (0..ntypes, any::<bool>(), proptest::collection::vec(any::<u64>(), 48)).prop_map(|(ty, full, words)| ProtoCase { ty, full, words }),
        cases,
        seed,
        20,
        |c: &ProtoCase, agg: &mut Agg| check_case(&ctx, c, agg),
    );
    rep.agg.extra.insert("message_types_instantiated".into(), serde_json::json!(ctx.types.iter().filter(|t| ctx.reg.real.contains_key(*t)).count()));
    rep.agg.extra.insert("exhaustive_over_types".into(), serde_json::json!(true));
    rep.absorb(out);
    std::process::exit(rep.finish());
}
